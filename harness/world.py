"""A virtual world around one real diameter Node: configuration, virtual peers,
recording applications, observation log, projection of public state.

All scenario drivers of the node properties (C06-C15, C17-C19) use this.
"""
from __future__ import annotations

from . import simrt, msgs
from .load import load

STATE = {0x10: "CONNECTING", 0x11: "CONNECTED", 0x12: "READY", 0x13: "WAITDWA",
         0x1a: "DISCONNECTING", 0x1b: "CLOSING", 0x1c: "CLOSED"}

DEFAULT_NODE = {"host": "node.r1", "realm": "r1", "idle": 30, "dwa": 4, "cer": 4, "cea": 4,
                "wakeup": 6, "retx": 10240, "validate": True, "listen": True, "samehbh": False, "nlisten": 1}


def peer_cfg(name, realm="r1", addrs=True, persistent=False, default=False, always=False, rwait=30,
             idle=None, dwa=None, cer=None, cea=None):
    return dict(name=name, host=name + "." + realm if "." not in name else name, realm=realm, addrs=addrs,
                persistent=persistent, default=default, always=always, rwait=rwait,
                idle=idle, dwa=dwa, cer=cer, cea=cea)


def app_cfg(name, app_id=4, auth=True, acct=False, peers=(), realms=(), kind="basic", max_threads=0, handler="hold", late=False):
    """late: the application is registered with the node by an `addapp` action while the node runs, not before start"""
    return dict(name=name, id=app_id, auth=auth, acct=acct, peers=list(peers), realms=list(realms), kind=kind,
                max_threads=max_threads, handler=handler, late=late)


class VC:
    """Harness handle of one connection socket of the node (inbound or outbound)."""

    def __init__(self, world, sock, c, direction):
        self.w = world
        self.sock = sock
        self.c = c
        self.dir = direction
        self.txbuf = b""
        self.tx = []          # abstract messages the node transmitted on this connection
        self.tx_frames = []
        sock.on_send = self._on_send

    def _on_send(self, sock, data):
        self.txbuf += data
        frames, self.txbuf = msgs.split_frames(self.txbuf)
        for fr in frames:
            try:
                m = msgs.absmsg(fr)
            except Exception as e:  # the node wrote something undecodable
                m = {"cmd": "BAD", "code": 0, "req": 0, "hbh": 0, "e2e": 0, "app": 0, "T": 0, "P": 0, "E": 0, "oh": "", "rlm": "", "rc": 0}
            self.tx.append(m)
            self.tx_frames.append(fr)
            self.w.s.emit("tx", c=self.c, m=m)

    @property
    def closed(self):
        return self.sock.closed


class World:
    def __init__(self, node=None, peers=(), apps=(), seed=0, fine=False, small_ids=True, start_time=None):
        self.ns = load()
        N = self.ns
        self.cfg = {"node": dict(DEFAULT_NODE, **(node or {})), "peers": [dict(p) for p in peers], "apps": [dict(a) for a in apps]}
        nc = self.cfg["node"]
        self.s = simrt.Scheduler(seed=seed, start_time=start_time or BASE_TIME)
        simrt.install(self.s)
        self.s.fine = fine
        if small_ids:
            self.s.rng = SmallIds(same=bool(nc.get("samehbh")))
        self.t0 = int(self.s.now)
        self.node = N.node.Node(nc["host"], nc["realm"], ip_addresses=["10.0.0.%d" % (i + 1) for i in range(nc.get("nlisten", 1))] if nc["listen"] else None,
                                tcp_port=3868 if nc["listen"] else None)
        n = self.node
        n.idle_timeout, n.dwa_timeout, n.cer_timeout, n.cea_timeout = nc["idle"], nc["dwa"], nc["cer"], nc["cea"]
        n.wakeup_interval = nc["wakeup"]
        n.vendor_id, n.product_name = 99001, "verif-node"      # (nodetrace.NODE_VENDOR / NODE_PRODUCT)
        n.retransmit_queue_size = nc["retx"]
        n.validate_received_request_avps = nc["validate"]
        self.peers = {}
        for p in self.cfg["peers"]:
            po = n.add_peer("aaa://%s" % p["host"], p["realm"], ip_addresses=["10.1.0.%d" % (len(self.peers) + 1)] if p["addrs"] else [],
                            is_persistent=p["persistent"], is_default=p["default"])
            po.always_reconnect = p["always"]
            po.reconnect_wait = p["rwait"]
            for k in ("idle", "dwa", "cer", "cea"):
                if p[k] is not None:
                    setattr(po, k + "_timeout", p[k])
            self.peers[p["name"]] = po
        self.host2peer = {p["host"]: p["name"] for p in self.cfg["peers"]}
        self.name2host = {p["name"]: p["host"] for p in self.cfg["peers"]}
        self.apps = {}
        for a in self.cfg["apps"]:
            ao = make_app(self, a)
            self.apps[a["name"]] = ao
            if not a.get("late"):
                n.add_application(ao, [self.peers[x] for x in a["peers"]], a["realms"] or None)
        self.conns: list[VC] = []
        self.fd2vc = {}
        self.fd2c = {}
        self.msg_conn = {}
        self.npc = 0                # PeerConnection objects created so far
        _install_pc_wrapper(self.ns)
        _CUR[0] = self
        self.s.policy = role_policy
        for t in self.s.threads:
            _set_role(t)
        self.s.net.on_connect = self._on_connect
        self.connect_plan = []      # outcomes for successive dials: "ok" | "inprogress" | errno
        self._wrap_node()
        self.started = False
        self.pick = "first"

        def select(node, app, message, peers):
            self.s.emit("select", a=getattr(app, "vname", "?"), offered=[p.node_name for p in peers])
            if self.pick == "default":          # the library's own callback (select_least_used_peer), left in place
                return default_select(node, app, message, peers)
            return peers[-1] if self.pick == "last" else peers[0]
        default_select = self.node.peer_route_select_func
        self.node.peer_route_select_func = select

    # ------------------------------------------------------------------
    def _wrap_node(self):
        n = self.node
        w = self
        orig_recv = n._receive_message
        orig_add = n._add_peer_connection

        def add(conn, peer_socket, proto):
            w.fd2c[peer_socket.fd] = getattr(conn, "vc_index", 0)
            return orig_add(conn, peer_socket, proto)
        n._add_peer_connection = add

        def recv(conn, msg):
            w.msg_conn[id(msg)] = (w.c_of(conn), msg)      # (keeps msg alive: ids are not reused)
            w.s.emit("dispatch", c=w.c_of(conn), m=abs_from_msg(msg))
            return orig_recv(conn, msg)
        n._receive_message = recv

    def _on_connect(self, sock, addr):
        r = self.connect_plan.pop(0) if self.connect_plan else "inprogress"
        vc = VC(self, sock, self.fd2c.get(sock.fd, 0), "out")
        self.conns.append(vc)
        self.fd2vc[sock.fd] = vc
        vc.addr = addr
        return r

    def add_app(self, name):
        """Node.add_application for an application configured as `late`"""
        a = next(x for x in self.cfg["apps"] if x["name"] == name)
        self.s.emit("addapp", app=name)
        self.node.add_application(self.apps[name], [self.peers[x] for x in a["peers"]], a["realms"] or None)
        self.run()

    def c_of(self, conn):
        return getattr(conn, "vc_index", 0)

    # ------------------------------------------------------------------ env actions
    def start(self):
        self.node.start()
        self.started = True
        self.s.emit("start")
        self.run()

    def run(self):
        self.s.run()

    def accept(self) -> VC:
        sock = self.s.net.inbound()
        vc = VC(self, sock, 0, "in")
        self.conns.append(vc)
        self.fd2vc[sock.fd] = vc
        self.run()
        vc.c = self.fd2c.get(sock.fd, 0)
        return vc

    def feed(self, vc: VC, frames, split=None, run=True):
        """Remote writes the given messages (bytes or Message) as ONE network read (or split at `split`)."""
        data = b""
        for f in frames:
            b = f if isinstance(f, (bytes, bytearray)) else f.as_bytes()
            try:
                m = msgs.absmsg(bytes(b))
            except Exception:
                m = None
            self.s.emit("fed", c=vc.c, m=m)
            data += bytes(b)
        if split:
            cuts = [0] + list(split) + [len(data)]
            for a, b in zip(cuts, cuts[1:]):
                vc.sock.feed(data[a:b])
        else:
            vc.sock.feed(data)
        if run:
            self.run()

    def peer_close(self, vc: VC):
        self.s.emit("peer_close", c=vc.c)
        vc.sock.remote_close()
        self.run()

    def peer_reset(self, vc: VC, err=104):
        self.s.emit("peer_reset", c=vc.c)
        vc.sock.recv_error = err
        self.run()

    def finish_connect(self, vc: VC, err=0):
        self.s.emit("connect_result", c=vc.c, err=err)
        vc.sock.finish_connect(err)
        self.run()

    def tick(self, n=1):
        for _ in range(n):
            self.s.advance(1)
            self.s.emit("tick")
            self.run()

    def spawn(self, fn, *a, name=None, role=None):
        t = simrt.Thread(target=fn, args=a, name=name)
        if role:
            t.role = (role, t._idx)
        _set_role(t)
        t.start()
        return t

    def close(self):
        self.s.teardown()
        simrt.install(None)

    # ------------------------------------------------------------------ projection
    def snap(self):
        n = self.node
        P = self.ns.peer
        out = {"t": int(self.s.now) - self.t0, "peers": {}, "conns": [], "socks": [], "apps": {}, "closed": [], "cst": []}
        for name, po in self.peers.items():
            c = self.c_of(po.connection) if po.connection is not None else 0
            out["peers"][self.name2host[name]] = {"conn": c, "st": STATE.get(po.connection.state, "?") if po.connection is not None else "",
                                  "reason": po.disconnect_reason or 0,
                                  "ldisc": (po.last_disconnect - self.t0) if po.last_disconnect else -1,
                                  "lconn": (po.last_connect - self.t0) if po.last_connect else -1,
                                  "cnt": [po.counters.cer, po.counters.cea, po.counters.dwr, po.counters.dwa, po.counters.dpr,
                                          po.counters.dpa, po.counters.requests, po.counters.answers]}
        for ident, conn in n.connections.items():
            c = self.c_of(conn)
            out["conns"].append(c)
            out["cst"].append({"c": c, "st": STATE.get(conn.state, "?")})
        for ident, sock in n.peer_sockets.items():
            vc = self.fd2vc.get(sock.fd)
            out["socks"].append(vc.c if vc else 0)
        out["conns"].sort()
        out["socks"].sort()
        out["cst"].sort(key=lambda x: x["c"])
        for name, ao in self.apps.items():
            out["apps"][name] = 1 if ao.is_ready.is_set() else 0
        out["closed"] = sorted(c for c in (self.fd2c.get(sk.fd, 0) for sk in self.s.net.sockets if sk.closed and not sk.listening) if c)
        out["alive"] = sum(1 for t in self.s.threads if t.is_alive())

        def size(name, deep=False):
            v = getattr(n, name, None)
            if v is None:
                return -1
            return len(v) + sum(len(x) for x in v.values()) if deep else len(v)     # deep: keys and the entries under them
        out["tb"] = [size("connections"), size("peer_sockets"), size("socket_peers"), size("_half_ready_connections"),
                     size("_peer_waiting_answer", True), size("_app_waiting_answer"), size("_origin_waiting_answer"),
                     sum(1 for t in self.s.threads if t.is_alive() and getattr(t, "role", ("",))[0] in ("rd", "wr")),
                     sum(1 for sk in self.s.net.sockets if not sk.closed and not sk.listening)]
        return out

    def emit_snap(self):
        return self.s.emit("snap", s=self.snap())


_CUR = [None]
_PRIO = {"rd": 0, "wr": 1, "proc": 2, "app_recv": 3, "app_resp": 4, "io": 5, "stats": 6, "env": 7, "other": 8, "stop": 9}
_TARGET_ROLE = {"_handle_connections": "io", "_collect_stats": "stats", "_wait_for_recv_msg": "app_recv",
                "_wait_for_resp_msg": "app_resp", "_process_recv_msg": "proc", "work_read_queue": "rd", "work_write_queue": "wr"}


def _set_role(t):
    if getattr(t, "role", None) is None:
        name = getattr(getattr(t, "_target", None), "__name__", "")
        t.role = (_TARGET_ROLE.get(name, "env" if name else "other"), t._idx)
    return t.role


def role_policy(sched, enabled):
    """Fixed thread priority of the atomic grain: readers, writers (by connection), application
    workers, then the I/O loop (mirrored by Node!StepPrio)."""
    return min(enabled, key=lambda t: (_PRIO.get(_set_role(t)[0], 9), _set_role(t)[1]))


def _install_pc_wrapper(ns):
    if getattr(ns.node, "_vc_wrapped", False):
        return
    Base = ns.peer.PeerConnection

    class TracedPeerConnection(Base):
        def __init__(self, *a, **k):
            w = _CUR[0]
            n0 = len(w.s.threads)
            super().__init__(*a, **k)
            w.npc += 1
            self.vc_index = w.npc
            for t in w.s.threads[n0:]:
                name = getattr(getattr(t, "_target", None), "__name__", "")
                t.role = (_TARGET_ROLE.get(name, "other"), self.vc_index)

    TracedPeerConnection.__name__ = "PeerConnection"
    TracedPeerConnection.__qualname__ = "PeerConnection"
    ns.node.PeerConnection = TracedPeerConnection
    ns.node._vc_wrapped = True


BASE_TIME = 1699999744.0   # low 12 bits zero: end-to-end ids start at the small random part


class SmallIds:
    """random shim policy: small deterministic identifiers (any value in range is a legal draw)."""

    def __init__(self, same=False):
        self.k = 0
        self.same = same     # every connection's hop-by-hop generator starts at the same value

    def randint(self, a, b):
        self.k += 1
        return min(b, max(a, 1000 * (min(self.k, 2) if self.same else self.k)))

    def getrandbits(self, k):
        return 77


def abs_from_msg(msg):
    h = msg.header
    def g(name, default):
        try:
            v = getattr(msg, name)
        except AttributeError:
            return default
        if v is None:
            return default
        if isinstance(v, bytes):
            v = v.decode("utf8", "replace")
        return v
    return {"cmd": msgs.CMD.get(h.command_code, "APP"), "code": h.command_code, "req": 1 if h.is_request else 0,
            "hbh": h.hop_by_hop_identifier, "e2e": h.end_to_end_identifier, "app": h.application_id,
            "T": 1 if h.is_retransmit else 0, "P": 1 if h.is_proxyable else 0, "E": 1 if h.is_error else 0,
            "oh": g("origin_host", ""), "rlm": g("destination_realm", ""), "rc": g("result_code", 0)}


class HandlerFailed(Exception):
    pass


HANDLER_FAILURES = (RuntimeError, NotImplementedError, KeyError, HandlerFailed, AttributeError, ValueError, LookupError, AssertionError, TypeError, OSError)


def make_app(world, a):
    N = world.ns
    base = N.application.Application if a["kind"] == "basic" else N.application.ThreadingApplication
    w = world

    class RecApp(base):
        def __init__(self):
            if a["kind"] == "basic":
                super().__init__(a["id"], is_acct_application=a["acct"], is_auth_application=a["auth"])
            else:
                super().__init__(a["id"], is_acct_application=a["acct"], is_auth_application=a["auth"], max_threads=a["max_threads"])
            self.vname = a["name"]
            self.inbox = []          # requests delivered (held for explicit answering)
            self.unexpected = []
            self.mode = a["handler"]

        def handle_request(self, message):
            w.s.emit("app_req", a=self.vname, c=w.msg_conn.get(id(message), (0, None))[0], m=abs_from_msg(message))
            self.inbox.append(message)
            mode = self.mode
            if callable(mode):
                return mode(self, message)
            if mode == "alt":           # no answer to the 1st, 3rd, ... request; an answer at once to the others
                self.nreq = getattr(self, "nreq", 0) + 1
                mode = "none" if self.nreq % 2 == 1 else "answer"
            if mode == "raise":         # "handling fails": whatever the handler raises (the kinds rotate, deterministically)
                self.nraise = getattr(self, "nraise", 0) + 1
                raise HANDLER_FAILURES[self.nraise % len(HANDLER_FAILURES)]("handler failed")
            if mode == "answer":
                ans = self.generate_answer(message, result_code=2001)
                if a["kind"] == "basic":
                    self.submit(ans)
                    return None
                return ans
            if mode in ("slow", "slow7"):       # 3 s; 7 s is longer than the 5 s a request waits for a thread slot
                simrt.time_shim.sleep(3 if mode == "slow" else 7)
                ans = self.generate_answer(message, result_code=2001)
                if a["kind"] == "basic":
                    self.submit(ans)
                    return None
                return ans
            return None              # "hold" / "none"

        def handle_answer(self, message):
            w.s.emit("app_ans", a=self.vname, m=abs_from_msg(message))
            self.unexpected.append(message)

        def send_answer(self, ans):
            """every answer the application hands to the node, with the outcome recorded"""
            try:
                super().send_answer(ans)
            except N.node.NotRoutable:
                w.s.emit("submit", a=self.vname, m=abs_from_msg(ans), r="NotRoutable")
                raise
            except Exception as e:
                w.s.emit("submit", a=self.vname, m=abs_from_msg(ans), r=type(e).__name__)
                raise
            w.s.emit("submit", a=self.vname, m=abs_from_msg(ans), r="ok")

        def submit(self, ans):
            try:
                self.send_answer(ans)
                return "ok"
            except Exception as e:
                return type(e).__name__

    return RecApp()
