"""Systematic (stateless, CHESS-style) schedule exploration with a preemption bound,
and source-line scheduling points via sys.settrace.

A *scenario* is a callable(sched) that creates virtual threads (and may drive the
run itself); ``run_schedule`` executes it under a choice prefix and returns the
decision records, so that ``explore`` can enumerate every schedule within the
preemption bound by re-execution.
"""
from __future__ import annotations

import random

from . import simrt


class Decisions:
    """Scheduling policy that follows a prefix of choices and then a default."""

    def __init__(self, prefix=(), rng: random.Random | None = None, p_switch: float = 0.0):
        self.prefix = list(prefix)
        self.records = []      # (enabled idxs, chosen idx, last idx, last_enabled)
        self.last = None       # idx of the thread that ran last
        self.preemptions = 0
        self.rng = rng
        self.p_switch = p_switch

    def __call__(self, sched, enabled):
        idxs = [t._idx for t in enabled]
        k = len(self.records)
        last_enabled = self.last in idxs
        if len(idxs) == 1:
            choice = idxs[0]
        elif k < len(self.prefix):
            choice = self.prefix[k]
            if choice not in idxs:
                raise simrt.MachineryError("schedule prefix not replayable: %r not in %r at %d" % (choice, idxs, k))
        elif self.rng is not None:
            if last_enabled and self.rng.random() >= self.p_switch:
                choice = self.last
            else:
                choice = self.rng.choice(idxs)
        else:
            choice = self.last if last_enabled else idxs[0]
        if len(idxs) > 1 or True:
            self.records.append((idxs, choice, self.last, last_enabled))
        if last_enabled and choice != self.last:
            self.preemptions += 1
        self.last = choice
        for t in enabled:
            if t._idx == choice:
                return t
        raise AssertionError


def _count_preempt(records, upto, alt):
    n = 0
    for (idxs, ch, last, le) in records[:upto]:
        if le and ch != last:
            n += 1
    idxs, ch, last, le = records[upto]
    if le and alt != last:
        n += 1
    return n


def next_prefix(records, max_preempt):
    """Given the decision records of a finished run, compute the next unexplored
    prefix in DFS order (or None)."""
    for i in range(len(records) - 1, -1, -1):
        idxs, ch, last, le = records[i]
        if len(idxs) < 2:
            continue
        # canonical order of alternatives: the non-preempting choice first, then ascending
        order = sorted(idxs)
        if le:
            order.remove(last)
            order.insert(0, last)
        pos = order.index(ch)
        for alt in order[pos + 1:]:
            if _count_preempt(records, i, alt) <= max_preempt:
                return [r[1] for r in records[:i]] + [alt]
    return None


def explore(run_one, max_preempt: int, max_runs: int = 1_000_000):
    """run_one(policy) -> result.  Yields (result, policy) for every schedule within the bound.
    Note: the default policy after the prefix is non-preemptive lowest-index, and the
    canonical order puts the non-preempting alternative first, so the enumeration is a DFS
    over the tree of schedules with at most max_preempt preemptions."""
    prefix = []
    runs = 0
    while prefix is not None and runs < max_runs:
        pol = Decisions(prefix)
        res = run_one(pol)
        runs += 1
        yield res, pol
        prefix = next_prefix(pol.records, max_preempt)


# ----------------------------------------------------------------------
# source-line scheduling points
# ----------------------------------------------------------------------
def make_line_tracer(sched: simrt.Scheduler, studied: dict, call_boundaries: bool = True,
                     line_filter: dict | None = None, call_names=None):
    """studied: {code object: name}.  Virtual threads yield before every source line of the
    studied functions (restricted to line_filter[code] if given) and, optionally, at calls made
    from those lines (restricted to callee names in call_names) and on return.  Yields only
    while sched.tracing is true, so long-running frames can be traced from their start."""
    sched.tracing = getattr(sched, "tracing", True)

    def local(frame, event, arg):
        if not sched.tracing:
            return local
        code = frame.f_code
        if event == "line":
            lf = line_filter.get(code) if line_filter else None
            if lf is None or frame.f_lineno in lf:
                sched.yield_now(("line", studied[code], frame.f_lineno))
        elif event == "return" and call_boundaries and not line_filter:
            sched.yield_now(("return", studied[code], frame.f_lineno))
        return local

    def glob(frame, event, arg):
        if event != "call":
            return None
        code = frame.f_code
        if code in studied:
            return local
        if call_boundaries and sched.tracing:
            back = frame.f_back
            if back is not None and back.f_code in studied:
                if call_names is None or code.co_name in call_names:
                    lf = line_filter.get(back.f_code) if line_filter else None
                    if lf is None or back.f_lineno in lf:
                        sched.yield_now(("call", studied[back.f_code], back.f_lineno))
        return None

    return glob
