"""Deterministic runtime: virtual threads, clock, queues, locks, sockets, pipes.

The repository's ``diameter.node`` modules are imported with the shim modules
of this file standing in for ``threading``, ``queue``, ``time``, ``select``,
``socket``, ``os`` and ``random`` (see load.py).  Every virtual thread is a real
OS thread that only runs while it holds the scheduler's baton, so exactly one
thread runs at a time and an execution is a function of (scenario, policy).

Scheduling points: every blocking primitive; in ``fine`` mode additionally every
visible operation (queue put/get, lock acquire/release, event set, pipe write,
socket send/recv, thread start); with a line tracer additionally source lines.
"""
from __future__ import annotations

import errno as _errno
import os as _real_os
import queue as _real_queue
import random as _real_random
import select as _real_select
import socket as _real_socket
import sys
import threading as _rt
import time as _real_time
import traceback
import types
from collections import deque

START_TIME = 1_700_000_000.0


class SimKill(BaseException):
    """Raised inside a virtual thread when its scheduler is torn down."""


class MachineryError(Exception):
    pass


class _Wait:
    __slots__ = ("pred", "deadline", "what")

    def __init__(self, pred, deadline, what):
        self.pred = pred
        self.deadline = deadline
        self.what = what


class Scheduler:
    def __init__(self, start_time: float = START_TIME, seed: int = 0):
        self.now = float(start_time)
        self.t0 = float(start_time)
        self.threads: list[Thread] = []
        self.cur: Thread | None = None
        self._ctl = _rt.Semaphore(0)
        self.dead = False
        self.fine = False          # yield at every visible operation
        self.steps = 0
        self.exits: list[tuple[str, str, str]] = []   # (name, exc type, traceback)
        self.park_always = False     # free grain: queue.get and select are scheduling points even when they would not block
        self.rng = _real_random.Random(seed)
        self.policy = None         # callable(sched, enabled) -> Thread
        self.tracefn = None        # sys.settrace function for virtual threads
        self.net = VNet(self)
        self.pipes: dict[int, deque] = {}
        self._next_fd = 100
        self.urandom_ctr = 0
        self.on_switch = None      # callback(thread, label) before a thread resumes
        self.step_budget = 2_000_000
        self.wall_limit = 30.0
        self.hung = None
        self.qgets = 0             # successful Queue.get calls (progress measures)
        self.obs = []              # harness-level observation log (appended by wrappers)
        self.seq = 0

    # ---- observation log -------------------------------------------------
    def emit(self, ev: str, **kw):
        self.seq += 1
        rec = {"i": self.seq, "t": int(self.now) - int(self.t0), "ev": ev}
        rec.update(kw)
        self.obs.append(rec)
        return rec

    # ---- fds ------------------------------------------------------------
    def new_fd(self) -> int:
        self._next_fd += 1
        return self._next_fd

    # ---- core -----------------------------------------------------------
    def enabled(self) -> list["Thread"]:
        out = []
        for t in self.threads:
            if not t._started or t._finished:
                continue
            w = t._wait
            if w is None:
                out.append(t)
            elif w.pred():
                out.append(t)
            elif w.deadline is not None and self.now >= w.deadline:
                out.append(t)
        return out

    def next_deadline(self):
        ds = [t._wait.deadline for t in self.threads
              if t._started and not t._finished and t._wait is not None
              and t._wait.deadline is not None and not t._wait.pred()]
        return min(ds) if ds else None

    def _switch_to(self, t: "Thread"):
        assert self.cur is None
        self.steps += 1
        if self.steps > self.step_budget:
            raise MachineryError("scheduler step budget exceeded")
        if self.on_switch:
            self.on_switch(t)
        self.cur = t
        t._go.release()
        if not self._ctl.acquire(timeout=self.wall_limit):
            self.hung = t
            raise MachineryError("virtual thread %s did not reach a scheduling point within %ss" % (t.name, self.wall_limit))
        self.cur = None

    def step(self) -> bool:
        en = self.enabled()
        if not en:
            return False
        t = self.policy(self, en) if self.policy else en[0]
        self._switch_to(t)
        return True

    def run(self, max_steps: int = 1_000_000) -> int:
        """Run until no thread is enabled at the current virtual time."""
        n = 0
        while n < max_steps and self.step():
            n += 1
        if n >= max_steps:
            raise MachineryError("run(): no quiescence within %d steps" % max_steps)
        return n

    def advance(self, dt: float):
        self.now += dt

    def run_for(self, seconds: int, tick: int = 1):
        """Advance the clock in ticks, running to quiescence after each."""
        self.run()
        for _ in range(int(seconds // tick)):
            self.advance(tick)
            self.run()

    def teardown(self):
        """Kill all virtual threads still alive (they unwind with SimKill)."""
        self.dead = True
        for t in self.threads:
            if t._started and not t._finished:
                t._go.release()
        for t in self.threads:
            if t._started and t._os is not None:
                t._os.join(5)

    # ---- called from inside virtual threads --------------------------------
    def _park(self, wait: _Wait | None):
        t = self.cur
        if t is None:
            raise MachineryError("controller thread would block: %s" % (wait.what if wait else "yield"))
        t._wait = wait
        self._ctl.release()
        t._go.acquire()
        if self.dead:
            raise SimKill()
        t._wait = None

    def block_until(self, pred, timeout=None, what="") -> bool:
        """Block the calling virtual thread until pred() or timeout. -> pred()"""
        if self.cur is None:
            if pred():
                return True
            raise MachineryError("controller thread would block on " + what)
        if self.dead:
            raise SimKill()
        if pred() and not self.fine and not (self.park_always and what in ("queue.get", "select")):
            return True
        deadline = None if timeout is None else self.now + max(0.0, timeout)
        if pred():
            # fine mode (or the free grain's loop boundaries): scheduling point without blocking
            self._park(_Wait(lambda: True, None, what))
            return True
        self._park(_Wait(pred, deadline, what))
        return pred()

    def visible_op(self, what=""):
        """A non-blocking visible operation: a scheduling point in fine mode."""
        if self.fine and self.cur is not None and not self.dead:
            self._park(_Wait(lambda: True, None, what))

    def yield_now(self, what=""):
        if self.cur is not None and not self.dead:
            self._park(_Wait(lambda: True, None, what))


_SCHED: Scheduler | None = None


def sched() -> Scheduler:
    if _SCHED is None:
        raise MachineryError("no scheduler installed")
    return _SCHED


def install(s: Scheduler | None):
    global _SCHED
    _SCHED = s


# ======================================================================
# threading
# ======================================================================
class Thread:
    _counter = 0

    def __init__(self, group=None, target=None, name=None, args=(),
                 kwargs=None, *, daemon=None):
        self._target = target
        self._args = tuple(args)
        self._kwargs = dict(kwargs or {})
        s = sched()
        self._sched = s
        self._idx = len([t for t in s.threads])
        self.name = name or (getattr(target, "__name__", None) or type(self).__name__) + "-%d" % self._idx
        self.daemon = bool(daemon)
        self._started = False
        self._finished = False
        self._wait: _Wait | None = None
        self._go = _rt.Semaphore(0)
        self._os: _rt.Thread | None = None
        self.exc = None
        s.threads.append(self)

    def run(self):
        if self._target is not None:
            self._target(*self._args, **self._kwargs)

    def _bootstrap(self):
        s = self._sched
        self._go.acquire()
        try:
            if s.dead:
                return
            if s.tracefn is not None:
                sys.settrace(s.tracefn)
            try:
                self.run()
            finally:
                sys.settrace(None)
        except SimKill:
            pass
        except BaseException as e:  # abnormal termination: an observation
            self.exc = e
            tb = traceback.format_exc()
            s.exits.append((self.name, type(e).__name__, tb))
            s.emit("thread_exit", th=self.name, exc=type(e).__name__)
        finally:
            self._finished = True
            if not s.dead:
                s._ctl.release()

    def start(self):
        if self._started:
            raise RuntimeError("threads can only be started once")
        self._started = True
        self._os = _rt.Thread(target=self._bootstrap, daemon=True)
        self._os.start()
        self._sched.visible_op("thread.start")

    def join(self, timeout=None):
        self._sched.block_until(lambda: self._finished, timeout, "join " + self.name)

    def is_alive(self):
        return self._started and not self._finished


class Event:
    def __init__(self):
        self._flag = False

    def is_set(self):
        return self._flag

    isSet = is_set

    def set(self):
        sched().visible_op("event.set")
        self._flag = True
        sched().visible_op("event.set.done")

    def clear(self):
        self._flag = False

    def wait(self, timeout=None):
        sched().block_until(lambda: self._flag, timeout, "event.wait")
        return self._flag


class Lock:
    def __init__(self):
        self._owner = None

    def acquire(self, blocking=True, timeout=-1):
        s = sched()
        me = s.cur or "ctl"
        if not blocking:
            if self._owner is None:
                self._owner = me
                return True
            return False
        ok = s.block_until(lambda: self._owner is None,
                           None if timeout is None or timeout < 0 else timeout, "lock.acquire")
        if ok:
            self._owner = me
        return ok

    def release(self):
        if self._owner is None:
            raise RuntimeError("release unlocked lock")
        self._owner = None
        sched().visible_op("lock.release")

    def locked(self):
        return self._owner is not None

    def __enter__(self):
        self.acquire()
        return self

    def __exit__(self, *a):
        self.release()


RLock = Lock  # not used by the repository


def _mk_module(name, real, **attrs):
    m = types.ModuleType(name)
    m.__dict__["_real"] = real

    def __getattr__(attr, _real=real):
        return getattr(_real, attr)
    m.__getattr__ = __getattr__
    for k, v in attrs.items():
        setattr(m, k, v)
    return m


threading_shim = _mk_module("threading", _rt, Thread=Thread, Event=Event, Lock=Lock, RLock=RLock)


# ======================================================================
# queue
# ======================================================================
class Queue:
    def __init__(self, maxsize=0):
        self.maxsize = maxsize
        self.queue = deque()

    def qsize(self):
        return len(self.queue)

    def empty(self):
        return not self.queue

    def full(self):
        return 0 < self.maxsize <= len(self.queue)

    def put(self, item, block=True, timeout=None):
        s = sched()
        if not block:
            if self.full():
                raise _real_queue.Full
        else:
            ok = s.block_until(lambda: not self.full(), timeout, "queue.put")
            if not ok:
                raise _real_queue.Full
        self.queue.append(item)
        s.visible_op("queue.put.done")      # fine mode: a thread may be preempted right after the item became visible

    def put_nowait(self, item):
        return self.put(item, block=False)

    def get(self, block=True, timeout=None):
        s = sched()
        if not block:
            if not self.queue:
                raise _real_queue.Empty
        else:
            ok = s.block_until(lambda: bool(self.queue), timeout, "queue.get")
            if not ok:
                raise _real_queue.Empty
        s.qgets += 1
        return self.queue.popleft()

    def get_nowait(self):
        return self.get(block=False)

    def task_done(self):
        pass


queue_shim = _mk_module("queue", _real_queue, Queue=Queue)


# ======================================================================
# time
# ======================================================================
def _time():
    # like a real clock, two readings are never exactly equal (sub-microsecond drift; whole seconds are unaffected)
    s = sched()
    s.now += 2e-6
    return s.now


def _sleep(d):
    sched().block_until(lambda: False, d, "sleep")


time_shim = _mk_module("time", _real_time, time=_time, sleep=_sleep, monotonic=_time)


# ======================================================================
# random (seeded per scheduler)
# ======================================================================
def _randint(a, b):
    return sched().rng.randint(a, b)


def _getrandbits(k):
    return sched().rng.getrandbits(k)


random_shim = _mk_module("random", _real_random, randint=_randint, getrandbits=_getrandbits)


# ======================================================================
# os: pipes and urandom
# ======================================================================
def _pipe():
    s = sched()
    r = s.new_fd()
    w = s.new_fd()
    buf = deque()
    s.pipes[r] = buf
    s.pipes[w] = buf
    return r, w


def _os_write(fd, data):
    s = sched()
    if fd not in s.pipes:
        raise OSError(_errno.EBADF, "bad virtual fd")
    s.visible_op("os.write")
    s.pipes[fd].append(bytes(data))
    s.visible_op("os.write.done")
    return len(data)


def _os_read(fd, n):
    s = sched()
    if fd not in s.pipes:
        raise OSError(_errno.EBADF, "bad virtual fd")
    buf = s.pipes[fd]
    s.block_until(lambda: bool(buf), None, "os.read")
    # a pipe is a byte stream: a read returns up to n bytes of whatever has been written, across write boundaries
    out = b""
    while buf and len(out) < n:
        chunk = buf.popleft()
        take = n - len(out)
        if len(chunk) > take:
            buf.appendleft(chunk[take:])
            chunk = chunk[:take]
        out += chunk
    return out


def _urandom(n):
    s = sched()
    s.urandom_ctr += 1
    return s.urandom_ctr.to_bytes(n, "big")


os_shim = _mk_module("os", _real_os, pipe=_pipe, write=_os_write, read=_os_read, urandom=_urandom)


# ======================================================================
# sockets and select
# ======================================================================
class VNet:
    """Virtual transport.  The scenario decides every outcome."""

    def __init__(self, s: Scheduler):
        self.s = s
        self.sockets: list[VSocket] = []
        self.listeners: list[VSocket] = []
        # connect outcome chosen by the scenario: callable(sock, addr) -> "ok" | "inprogress" | errno int
        self.on_connect = lambda sock, addr: "inprogress"
        self.dials: list[VSocket] = []

    def inbound(self, listener: "VSocket | None" = None, ip="10.0.0.9", port=40000) -> "VSocket":
        """Harness: a remote party connects to the node's listening socket."""
        if listener is None:
            listener = self.listeners[0]
        c = VSocket(self)
        c.connected = True
        c.remote = (ip, port)
        listener.backlog.append(c)
        self.s.emit("env_connect", fd=c.fd)
        return c


class VSocket:
    def __init__(self, net: VNet = None, *a, **k):
        if not isinstance(net, VNet):
            net = sched().net
        self.net = net
        self.fd = net.s.new_fd()
        self.closed = False
        self.listening = False
        self.backlog: deque = deque()
        self.connected = False
        self.connecting = False
        self.so_error = None            # result of an in-progress connect (None = undecided)
        self.remote = None
        self.inbuf: deque = deque()     # chunks the remote wrote
        self.remote_closed = False      # orderly close from the remote
        self.recv_error = None          # errno raised by the next recv (hard or soft)
        self.sent = bytearray()         # bytes accepted by send()
        self.send_script: deque = deque()   # each: int k>0 (accept at most k) | negative errno
        self.send_calls = 0
        self.writable = True
        self.linger = None
        net.sockets.append(self)

    # --- node side API ----------------------------------------------------
    def fileno(self):
        return self.fd

    def setblocking(self, flag):
        pass

    def setsockopt(self, level, opt, val):
        if opt == _real_socket.SO_LINGER:
            self.linger = val

    def getsockopt(self, level, opt):
        if opt == _real_socket.SO_ERROR:
            return self.so_error or 0
        return 0

    def bind(self, addr):
        self.local = addr

    bindx = bind

    def listen(self, n):
        self.listening = True
        self.net.listeners.append(self)

    def accept(self):
        s = self.net.s
        s.visible_op("accept")
        if not self.backlog:
            raise BlockingIOError(_errno.EAGAIN, "no pending connection")
        c = self.backlog.popleft()
        s.emit("accept", fd=c.fd)
        return c, c.remote

    def connect(self, addr):
        s = self.net.s
        if self.closed:             # (a closed socket has no descriptor: nothing goes out)
            raise OSError(_errno.EBADF, "Bad file descriptor")
        self.remote = addr
        self.net.dials.append(self)
        r = self.net.on_connect(self, addr)
        s.emit("dial", fd=self.fd, host=str(addr[0]) if isinstance(addr, tuple) else str(addr), outcome=str(r))
        if r == "ok":
            self.connected = True
            return
        if r == "inprogress":
            self.connecting = True
            raise BlockingIOError(_errno.EINPROGRESS, "in progress")
        raise OSError(int(r), "connect failed")

    def connectx(self, addrs):
        return self.connect(addrs[0])

    def getsockname(self):
        return ("10.0.0.1", 50000 + self.fd)

    def recv(self, n):
        s = self.net.s
        s.visible_op("recv")
        if self.closed:
            raise OSError(_errno.EBADF, "closed")
        if self.recv_error is not None:
            e, self.recv_error = self.recv_error, None
            raise OSError(e, "recv error")
        if self.inbuf:
            chunk = self.inbuf.popleft()
            if len(chunk) > n:
                self.inbuf.appendleft(chunk[n:])
                chunk = chunk[:n]
            s.emit("recv", fd=self.fd, n=len(chunk))
            return chunk
        if self.remote_closed:
            return b""
        raise BlockingIOError(_errno.EAGAIN, "would block")

    def send(self, data):
        s = self.net.s
        s.visible_op("send")
        self.send_calls += 1
        if self.closed:
            raise OSError(_errno.EBADF, "closed")
        k = len(data)
        if self.send_script:
            r = self.send_script.popleft()
            if r < 0:
                raise OSError(-r, "send error")
            k = min(k, r)
        data = bytes(data[:k])
        self.sent += data
        h = getattr(self, "on_send", None)
        if h:
            h(self, data)
        return k

    def sctp_send(self, data, flags=0):
        return self.send(data)

    def close(self):
        if not self.closed:
            self.closed = True
            self.net.s.emit("sock_close", fd=self.fd)
            if self in self.net.listeners:
                self.net.listeners.remove(self)

    # --- harness side API -------------------------------------------------
    def feed(self, data: bytes):
        self.inbuf.append(bytes(data))

    def finish_connect(self, err: int = 0):
        self.connecting = False
        self.so_error = err
        if err == 0:
            self.connected = True

    def remote_close(self):
        self.remote_closed = True

    def readable(self):
        if self.closed:
            return False
        if self.listening:
            return bool(self.backlog)
        return bool(self.inbuf) or self.remote_closed or self.recv_error is not None

    def is_writable(self):
        if self.closed:
            return False
        if self.connecting:
            return False
        if self.so_error is not None and not self.connected:
            return True     # failed connect reports writable
        return self.connected and self.writable

    def __eq__(self, other):
        return self is other

    def __hash__(self):
        return id(self)


def _select(r, w, x, timeout=None):
    s = sched()

    def rd(o):
        if isinstance(o, int):
            return bool(s.pipes.get(o))
        return o.readable()

    def ready():
        return any(rd(o) for o in r) or any(o.is_writable() for o in w)

    # select is always a scheduling point of the I/O loop
    s.block_until(ready, timeout, "select")
    return [o for o in r if rd(o)], [o for o in w if o.is_writable()], []


select_shim = _mk_module("select", _real_select, select=_select)
socket_shim = _mk_module("socket", _real_socket, socket=VSocket)


class _SctpShim(types.ModuleType):
    MSG_UNORDERED = 1
    sctpsocket = VSocket

    @staticmethod
    def sctpsocket_tcp(family):
        return VSocket()


sctp_shim = _SctpShim("sctp")

SHIMS = {
    "threading": threading_shim, "queue": queue_shim, "time": time_shim,
    "random": random_shim, "os": os_shim, "select": select_shim,
    "socket": socket_shim,
}
