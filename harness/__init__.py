"""Verification harness.  The code under test is always imported from DIAMETER_SRC
(default /repo/src), never from an installed copy: put it first on sys.path before
any module of this package imports `diameter`."""
import os
import sys

REPO_SRC = os.environ.get("DIAMETER_SRC", "/repo/src")
if sys.path[0] != REPO_SRC:
    sys.path.insert(0, REPO_SRC)
os.environ.setdefault("TZ", "UTC")
