"""Atomic-grain histories of the real node: scenario language, execution, trace recording,
random history generation, and the model-side (Node.tla) message records.

A scenario is (config, [action ...]).  Each action is executed on a World, the node runs to
quiescence, and one trace step {act, out, snap} is recorded.  The same trace feeds the
property monitors (Mon_*.tla) and the conformance check against Node.tla (Conf_Node.tla).
"""
from __future__ import annotations

import random

from . import msgs
from .world import World, peer_cfg, app_cfg

NODE_HOST = "node.r1"
OBS = {"tx", "dispatch", "sock_close", "accept", "dial", "app_req", "app_ans", "submit", "thread_exit"}
RELAY = 0xFFFFFFFF


# ----------------------------------------------------------------------
# abstract messages (model records) and their concrete bytes
# ----------------------------------------------------------------------
def M(cmd, req, hbh=1, e2e=1, app=0, oh="", realm="", rc=0, T=False, typed=True, miss=False, code=None,
      auth=(), acct=(), relay=False):
    code = code if code is not None else {"CE": 257, "DW": 280, "DP": 282}.get(cmd, 272)
    return {"cmd": cmd, "code": code, "req": bool(req), "hbh": hbh, "e2e": e2e, "app": app, "oh": oh, "realm": realm,
            "rc": rc, "T": bool(T), "typed": bool(typed), "miss": bool(miss), "auth": sorted(auth), "acct": sorted(acct),
            "relay": bool(relay)}


def concrete(m) -> bytes:
    """Real Diameter bytes for a model message."""
    c, req = m["cmd"], m["req"]
    oh = m["oh"] or None
    if c == "CE" and req:
        auth = list(m["auth"]) + ([RELAY] if m["relay"] else [])
        x = msgs.cer(oh or "x", hbh=m["hbh"], e2e=m["e2e"], auth=auth, acct=m["acct"])
        if oh is None:
            x.origin_host = None
        return x.as_bytes()
    if c == "CE":
        x = msgs.cea(oh or "x", hbh=m["hbh"], e2e=m["e2e"], rc=m["rc"], auth=m["auth"], acct=m["acct"], with_origin=oh is not None)
        return x.as_bytes()
    if c == "DW":
        x = (msgs.dwr if req else msgs.dwa)(oh or "x", hbh=m["hbh"], e2e=m["e2e"])
        if oh is None:
            x.origin_host = None
        if not req:
            x.result_code = m["rc"] or 2001
        return x.as_bytes()
    if c == "DP":
        x = (msgs.dpr if req else msgs.dpa)(oh or "x", hbh=m["hbh"], e2e=m["e2e"])
        if oh is None:
            x.origin_host = None
        if not req:
            x.result_code = m["rc"] or 2001
        return x.as_bytes()
    # application commands
    if m["typed"]:
        if req:
            x = msgs.ccr(oh or "x", dest_realm=m["realm"] or None, hbh=m["hbh"], e2e=m["e2e"], app=m["app"], T=m["T"],
                         drop=("cc_request_type",) if m["miss"] else ())
            if oh is None:
                x.origin_host = None
            return x.as_bytes()
        r = msgs.ccr("x", hbh=m["hbh"], e2e=m["e2e"], app=m["app"])
        a = msgs.cca(r, oh or "x", rc=m["rc"] or 2001)
        if oh is None:
            a.origin_host = None
        return a.as_bytes()
    if req:
        return msgs.raw_request(m["code"], m["app"], m["hbh"], m["e2e"], host=oh, dest_realm=m["realm"] or None,
                                flags=0x80 | (0x10 if m["T"] else 0))
    return msgs.raw_answer(m["code"], m["app"], m["hbh"], m["e2e"], host=oh, rc=m["rc"] or None)


def jmsg(a: dict) -> dict:
    """harness abstraction (msgs.absmsg / world.abs_from_msg) -> comparable record"""
    if a is None:
        return {"cmd": "BAD", "req": False, "hbh": 0, "e2e": 0, "app": 0, "rc": 0, "oh": ""}
    return {"cmd": a["cmd"], "code": a["code"], "req": bool(a["req"]), "hbh": a["hbh"], "e2e": a["e2e"], "app": a["app"],
            "rc": a["rc"] if isinstance(a["rc"], int) else 0, "oh": a["oh"] or "", "T": bool(a["T"]), "P": bool(a.get("P")),
            "E": bool(a.get("E")), "rlm": a.get("rlm", "")} | ({"dc": a["dc"]} if a.get("cmd") == "DP" and a.get("req") and isinstance(a.get("dc"), int) else {}) \
        | ({"x": a["x"]} if "x" in a else {})


# ----------------------------------------------------------------------
# configuration -> World / model parameters
# ----------------------------------------------------------------------
NODE_VENDOR = 99001
NODE_PRODUCT = "verif-node"
from .world import BASE_TIME as _BT
NODE_OSI = int(_BT)


def model_params(cfg, max_conn=6, pinned=()):
    nc = cfg["node"]
    peers = {}
    order = []
    for p in cfg["peers"]:
        order.append(p["host"])
        peers[p["host"]] = {"realm": p["realm"], "persistent": p["persistent"], "always": p["always"], "rwait": p["rwait"],
                            "addrs": p["addrs"], "default": p["default"], "idle": p["idle"] or 0, "dwa": p["dwa"] or 0,
                            "cer": p["cer"] or 0, "cea": p["cea"] or 0}
    name2host = {p["name"]: p["host"] for p in cfg["peers"]}
    apps = {}
    aorder = []
    for a in cfg["apps"]:
        aorder.append(a["name"])
        apps[a["name"]] = {"id": a["id"], "auth": a["auth"], "acct": a["acct"], "peers": [name2host[x] for x in a["peers"]],
                           "realms": list(a["realms"]), "kind": a["kind"], "handler": a["handler"] if isinstance(a["handler"], str) else "hold",
                           "max": a.get("max_threads", 0), "late": bool(a.get("late", False))}
    return {"node": {"host": nc["host"], "realm": nc["realm"], "idle": nc["idle"], "dwa": nc["dwa"], "cer": nc["cer"],
                     "cea": nc["cea"], "wakeup": nc["wakeup"], "retx": nc["retx"], "validate": nc["validate"], "samehbh": bool(nc.get("samehbh")),
                     # what the node says about itself (World sets these explicitly): content clauses of Mon_C06 / Mon_C11 / Mon_C20
                     "listen": bool(nc.get("listen", True)), "ips": ["10.0.0.%d" % (i + 1) for i in range(nc.get("nlisten", 1))], "vendor": NODE_VENDOR, "product": NODE_PRODUCT, "osi": NODE_OSI},
            "peerOrder": order, "peers": peers, "appOrder": aorder, "apps": apps, "maxConn": max_conn, "pinned": list(pinned),
            # other spellings of the peers' names the environment may use in a CER (identities are case-insensitive)
            "canon": {h.upper(): h for h in order if h.upper() != h}}


class StepNotEnabled(Exception):
    pass


class Runner:
    """Executes actions on a World and records trace steps."""

    def __init__(self, cfg, seed=0):
        self.cfg = cfg
        self.w = World(node=cfg.get("node"), peers=cfg["peers"], apps=cfg["apps"], seed=seed)
        self.full_cfg = self.w.cfg
        self.steps = []
        self._mark = 0
        self.held = []          # (app name, request Message) delivered to "hold" applications
        self.vcs = {}           # c -> VC
        self.free = False       # True: no running to quiescence after an action; thread steps are actions of their own

    def _collect(self):
        out = []
        s = self.w.s
        for e in s.obs[self._mark:]:
            ev = e["ev"]
            if ev in ("tx", "dispatch"):
                out.append({"ev": ev, "c": e["c"], "m": jmsg(e["m"])})
            elif ev == "sock_close":
                c = self.w.fd2c.get(e["fd"], 0)
                if c:
                    out.append({"ev": ev, "c": c})
            elif ev == "accept":
                out.append({"ev": ev, "c": self.w.fd2c.get(e["fd"], 0)})
            elif ev == "dial":
                host = None
                c = self.w.fd2c.get(e["fd"], 0)
                vc = self.w.fd2vc.get(e["fd"])
                conn_name = ""
                for po in self.w.peers.values():
                    pass
                out.append({"ev": ev, "c": c, "p": self._dial_peer(e["fd"]), "r": {"ok": "ok", "inprogress": "inprogress"}.get(e["outcome"], "fail")})
            elif ev == "app_req":
                out.append({"ev": ev, "a": e["a"], "c": e.get("c", 0), "m": jmsg(e["m"])})
            elif ev == "app_ans":
                out.append({"ev": ev, "a": e["a"], "m": jmsg(e["m"])})
            elif ev == "submit":
                out.append({"ev": ev, "a": e["a"], "m": jmsg(e["m"]), "r": e["r"]})
            elif ev == "select":
                out.append({"ev": ev, "a": e["a"], "offered": e["offered"]})
            elif ev == "req_result":
                out.append({"ev": ev, "k": e["k"], "r": e["r"], "hbh": e["hbh"], "e2e": e["e2e"]})
            elif ev == "thread_exit":
                th = e["th"]
                for pat, role in (("_wait_for_resp_msg", "app_resp"), ("_wait_for_recv_msg", "app_recv"), ("_process_recv_msg", "proc"),
                                  ("work_read_queue", "rd"), ("work_write_queue", "wr"), ("_handle_connections", "io"), ("_collect_stats", "stats")):
                    if pat in th:
                        th = role
                out.append({"ev": ev, "th": th, "exc": e["exc"]})
            elif ev == "stop_done":
                out.append({"ev": ev, "r": e["r"], "listen": e["listen"], "nodeThreads": e["nodeThreads"]})
        self._mark = len(s.obs)
        return out

    def _dial_peer(self, fd):
        vc = self.w.fd2vc.get(fd)
        ip = str(vc.addr[0]) if vc is not None and getattr(vc, "addr", None) else ""
        for i, p in enumerate(self.full_cfg["peers"]):
            if ip == "10.1.0.%d" % (i + 1):
                return p["host"]
        return ""

    # -- the free grain: one environment action, or one step of one named thread, per trace step ---------------
    def _thread_of(self, th, c):
        ts = [t for t in self.w.s.threads if t._started and not t._finished]
        role = lambda t: getattr(t, "role", ("", 0))
        if th in ("rd", "wr"):
            cand = [t for t in ts if role(t) == (th, c)]
        elif th in ("io", "stop", "stats"):
            cand = [t for t in ts if role(t)[0] == th]
        elif th == "proc":
            allp = [t for t in self.w.s.threads if role(t)[0] == "proc"]
            cand = [allp[c - 1]] if 0 < c <= len(allp) and not allp[c - 1]._finished else []
        elif th in ("app_recv", "app_resp"):
            alla = [t for t in self.w.s.threads if role(t)[0] == th]
            cand = [alla[c - 1]] if 0 < c <= len(alla) else []
        elif th == "snd":
            cand = [t for t in ts if t.name == "sender-%d" % c]
        else:
            cand = []
        return cand[0] if cand else None

    def step_thread(self, th, c):
        """run exactly one step (until its next blocking call) of the named thread"""
        w = self.w
        t = self._thread_of(th, c)
        if t is None or t not in w.s.enabled():
            raise StepNotEnabled("thread %s/%s is %s in the implementation" % (th, c, "absent" if t is None else "not enabled"))
        old = w.s.policy
        w.s.policy = lambda sched, en: t
        try:
            w.s.step()
        finally:
            w.s.policy = old

    def do(self, act):
        w = self.w
        a = act["a"]
        self._mark = len(w.s.obs)
        if self.free:
            w.s.park_always = True
            return self._do_free(act)
        return self._do(act)

    def _do_free(self, act):
        w = self.w
        a = act["a"]
        real_run, real_srun = w.run, w.s.run
        if a == "step":
            self.step_thread(act["th"], act["c"])
            return self._finish(act)
        n0 = len(w.s.threads)
        w.run = lambda: None
        w.s.run = lambda *x, **k: 0
        try:
            if a == "start":
                w.run, w.s.run = real_run, real_srun       # the start action runs at the atomic grain (as does the prefix)
            self._act(act)
        finally:
            w.run, w.s.run = real_run, real_srun
        if a == "send":                                    # the sender runs up to its wait (one action, as in the model)
            new = [t for t in w.s.threads[n0:] if t.name.startswith("sender-")]
            if new:
                old = w.s.policy
                w.s.policy = lambda sched, en: new[0]
                try:
                    w.s.step()
                finally:
                    w.s.policy = old
        return self._finish(act)

    def _do(self, act):
        self._act(act)
        return self._finish(act)

    def _act(self, act):
        w = self.w
        a = act["a"]
        if a == "start":
            w.start()
        elif a == "plan":
            w.connect_plan = [{"ok": "ok", "inprogress": "inprogress", "fail": 111}[x] for x in act["plan"]]
        elif a == "connect":
            vc = w.accept()
            if vc.c:
                self.vcs[vc.c] = vc
        elif a == "feed":
            vc = self._vc(act["c"])
            w.feed(vc, [concrete(m) for m in act["ms"]])
        elif a == "garbage":
            vc = self._vc(act["c"])
            w.s.emit("fed", c=vc.c, m=None)
            vc.sock.feed(msgs.hdr_bytes(272, 0x80, 4, 1, 1, 0))      # header with length field 0: unparsable, the reader closes
            w.run()
        elif a == "frag":
            vc = self._vc(act["c"])
            data = concrete(act["m"])
            n, i = act["n"], act["i"]
            cut = [len(data) * j // n for j in range(n + 1)]
            w.s.emit("fed", c=vc.c, m=None)
            vc.sock.feed(data[cut[i - 1]:cut[i]])
            vc.frag = (act["m"], i, n) if i < n else None
            w.run()
        elif a == "peer_close":
            w.peer_close(self._vc(act["c"]))
        elif a == "peer_reset":
            w.peer_reset(self._vc(act["c"]))
        elif a == "stall":
            w.s.emit("stall", c=act["c"])
            self._vc(act["c"]).sock.writable = False               # the peer stops reading: the socket never becomes writable again
            w.run()
        elif a == "multi":
            real_run, real_srun = w.run, w.s.run
            w.run = lambda: None
            w.s.run = lambda *x, **k: 0
            try:
                for sub in act["acts"]:
                    self._act(dict(sub))
            finally:
                w.run, w.s.run = real_run, real_srun
            if not self.free:
                w.run()
        elif a == "send_error":
            w.s.emit("send_error", c=act["c"])
            self._vc(act["c"]).sock.send_script.append(-32)       # the node's next send() on this socket fails with EPIPE
            w.run()
        elif a == "connect_result":
            w.finish_connect(self._vc(act["c"]), act["err"])
        elif a == "addapp":
            w.add_app(act["app"])
        elif a == "tick":
            w.tick(1)
        elif a == "jump":
            for _ in range(act["n"]):
                w.s.advance(1)
                w.run()
        elif a == "stop":
            from . import simrt as _simrt

            def stopper(force=act["force"], wait=act["wait"]):
                try:
                    w.node.stop(wait_timeout=wait, force=force)
                    r = "ok"
                except _simrt.SimKill:
                    raise
                except BaseException as e:
                    r = type(e).__name__
                w.s.emit("stop_done", r=r, listen=sum(1 for sk in w.s.net.sockets if sk.listening and not sk.closed),
                         nodeThreads=sum(1 for t in w.s.threads if t.is_alive() and getattr(t, "role", ("",))[0] in ("io", "stats")))
            w.spawn(stopper, name="stopper", role="stop")
            w.run()
        elif a == "send":
            app = w.apps[act["app"]]
            w.pick = act["pick"]
            NotRoutable = w.ns.node.NotRoutable

            def sender(k=act["k"], realm=act["realm"], timeout=act["timeout"], dhost=act.get("dhost", "")):
                req = msgs.ccr(NODE_HOST, dest_realm=realm, hbh=0, e2e=0, app=0)
                if dhost:           # a Destination-Host does not widen the set of eligible peers
                    req.destination_host = dhost.encode()
                hbh = e2e = 0
                try:
                    ans = app.send_request(req, timeout=timeout)
                    r, hbh, e2e = "answer", ans.header.hop_by_hop_identifier, ans.header.end_to_end_identifier
                    if ans.header.command_code in (257, 280, 282):      # a base-protocol message handed over as "the answer"
                        r = "base:%d" % ans.header.command_code
                except NotRoutable:
                    r = "NotRoutable"
                except TimeoutError:
                    r, hbh, e2e = "Timeout", req.header.hop_by_hop_identifier, req.header.end_to_end_identifier
                except Exception as e:
                    r = type(e).__name__
                w.s.emit("req_result", k=k, r=r, hbh=hbh, e2e=e2e)
            w.spawn(sender, name="sender-%d" % act["k"])
            w.run()
        elif a == "submit":
            app = w.apps[act["app"]]
            req = act.get("_req")
            if req is None:     # replay: find the held request by its identifiers
                for i, (nm, rq) in enumerate(self.held):
                    if nm == act["app"] and rq.header.hop_by_hop_identifier == act["m"]["hbh"] and rq.header.end_to_end_identifier == act["m"]["e2e"] \
                            and w.msg_conn.get(id(rq), (0, None))[0] == act.get("c0", w.msg_conn.get(id(rq), (0, None))[0]):
                        req = rq
                        del self.held[i]
                        break
                else:
                    for rq in app.inbox:
                        if rq.header.hop_by_hop_identifier == act["m"]["hbh"] and rq.header.end_to_end_identifier == act["m"]["e2e"] \
                                and w.msg_conn.get(id(rq), (0, None))[0] == act.get("c0", w.msg_conn.get(id(rq), (0, None))[0]):
                            req = rq
                            break
            if req is None:
                raise KeyError("no delivered request matches submit %r" % (act["m"],))
            rc = act["m"].get("rc") or 2001
            ans = app.generate_answer(req, result_code=rc)
            if 3000 <= rc < 4000:           # protocol errors travel with the E bit
                ans.header.is_error = True
            app.submit(ans)
            w.run()
        else:
            raise ValueError(a)

    def _finish(self, act):
        w = self.w
        for vc in w.conns:
            if vc.dir == "out" and not hasattr(vc, "dialled"):
                vc.dialled = self._dial_peer(vc.sock.fd)
            if vc.c and vc.c not in self.vcs:
                self.vcs[vc.c] = vc
            elif not vc.c:
                c = w.fd2c.get(vc.sock.fd, 0)
                if c:
                    vc.c = c
                    self.vcs[c] = vc
        # requests newly delivered to holding applications
        for name, app in w.apps.items():
            while len(app.inbox) > getattr(app, "_seen", 0):
                req = app.inbox[getattr(app, "_seen", 0)]
                app._seen = getattr(app, "_seen", 0) + 1
                if app.mode == "hold":
                    self.held.append((name, req))
                elif app.mode == "raise":
                    # the handler failed and the node answered itself; the application may still submit an answer later
                    if not hasattr(self, "answered"):
                        self.answered = []
                    self.answered.append((name, req))
        out = self._collect()
        step = {"act": {k: v for k, v in act.items() if not k.startswith("_")}, "out": out, "snap": w.snap()}
        if self.free:
            step["free"] = True
        self.steps.append(step)
        return step

    def _vc(self, c):
        return self.vcs[c]

    def close(self):
        exits = list(self.w.s.exits)
        self.w.close()
        return exits


# ----------------------------------------------------------------------
# random atomic histories
# ----------------------------------------------------------------------
def default_cfg(rng: random.Random, variant=None):
    """A small but varied node configuration."""
    v = variant if variant is not None else rng.randrange(6)
    node = {"idle": rng.choice([2, 3, 5]), "dwa": rng.choice([1, 2, 3]), "cer": rng.choice([1, 2, 3]), "cea": rng.choice([1, 2, 3]),
            "wakeup": rng.choice([1, 2, 3]), "retx": rng.choice([1, 2, 4, 100])}
    peers = [peer_cfg("p1", persistent=rng.random() < 0.5, rwait=rng.choice([1, 2, 4]), always=rng.random() < 0.4,
                      idle=rng.choice([None, None, 1, 4]), dwa=rng.choice([None, None, 2]), cer=rng.choice([None, 2]), cea=rng.choice([None, 2]))]
    if v >= 1:
        peers.append(peer_cfg("p2", persistent=rng.random() < 0.3, rwait=rng.choice([1, 3]), addrs=rng.random() < 0.8))
    if v >= 4:
        peers.append(peer_cfg("p3", realm="r2", persistent=False))
    apps = []
    if v != 2:
        apps.append(app_cfg("a1", 4, peers=["p1"] + (["p2"] if v >= 3 else []), handler=rng.choice(["hold", "answer", "answer", "raise"]),
                            realms=["r3"] if v == 5 else []))
    if v >= 3:
        apps.append(app_cfg("a2", rng.choice([4, 3]), auth=rng.random() < 0.5 or True, acct=rng.random() < 0.3,
                            peers=["p2"] + (["p3"] if v >= 4 else []), handler=rng.choice(["hold", "answer"])))
    return {"node": node, "peers": peers, "apps": apps}


class Gen:
    """Random history generator (seeded): picks the next action from the current world state."""

    def __init__(self, runner: Runner, rng: random.Random, max_conn=6, focus=None):
        self.r = runner
        self.rng = rng
        self.max_conn = max_conn
        self.focus = focus or {}
        self.hbh = 0
        self.hosts = [p["host"] for p in runner.full_cfg["peers"]] + ["x.r9"]
        self.app_ids = sorted({a["id"] for a in runner.full_cfg["apps"]} | {9})
        self.realms = ["r1", "r2", "r3", "r9", ""]
        self.sent_e2e = []

    def _ids(self):
        self.hbh += 1
        rng = self.rng
        # small identifiers collide on purpose; 0 is a legal identifier too
        hbh = rng.choice([1, 2, 3, 0]) if rng.random() < 0.5 else self.hbh + 10
        e2e = rng.choice([1, 2, 3, 0]) if rng.random() < 0.5 else self.hbh + 50
        return hbh, e2e

    def _spell(self, m):
        """every fifth CER spells a configured peer's name in upper case (identities are case-insensitive); derived from the
        identifiers so that the random stream stays as it was"""
        if m["cmd"] == "CE" and m["req"] and (m["hbh"] + m["e2e"]) % 5 == 0 and any(p["host"] == m["oh"] for p in self.r.full_cfg["peers"]):
            # (an end-to-end identifier of its own: the node files the answer under the name as spelled, the model and the monitors
            #  under the configured name - a later retransmission-flagged request reusing the CER's identifier would tell them apart)
            m = dict(m, oh=m["oh"].upper(), e2e=m["e2e"] + 900000)
        return m

    def message(self, vc):
        return self._spell(self._message(vc))

    def _message(self, vc):
        rng = self.rng
        w = self.r.w
        hbh, e2e = self._ids()
        host = None
        # the host this connection speaks as (if known), else any
        for p in self.r.full_cfg["peers"]:
            po = w.peers[p["name"]]
            if po.connection is not None and w.c_of(po.connection) == vc.c:
                host = p["host"]
        # identity used in Origin-Host: the peer this connection belongs to; otherwise (rarely) an unknown host.
        # An outbound connection never claims to be a *different configured* peer (excluded input class, see DESIGN).
        dialled = getattr(vc, "dialled", None)
        if dialled:
            claimed = dialled if rng.random() < 0.9 else "x.r9"
        else:
            claimed = host if (host and rng.random() < 0.85) else rng.choice(self.hosts)
        kinds = ["cer", "cea", "dwr", "dwa", "dpr", "dpa", "req", "ans", "ureq", "uans"]
        kind = rng.choices(kinds, weights=self.focus.get("weights", [2, 2, 2, 2, 1, 1, 6, 2, 1, 1]))[0]
        if getattr(self, "stopped", False) and rng.random() < 0.6:
            kind = "dpa"                 # peers answer the node's DPR (promptly, late, or not at all)
        # steer towards completing the capabilities exchange properly most of the time
        st = self.conn_state(vc)
        if st == "CONNECTED" and rng.random() < 0.8:
            known = [p["host"] for p in self.r.full_cfg["peers"]]
            if vc.dir == "in":
                busy = {h for h in known if w.peers[w.host2peer[h]].connection is not None}
                cand = [h for h in known if h not in busy] or known
                good = rng.random() < 0.8
                if getattr(vc, "cer_sent", False) and not self.focus.get("multi_cer"):
                    return M("DW", True, hbh, e2e, oh=rng.choice(known))
                vc.cer_sent = True
                vc.ce_done = True
                # (not good: nothing in common - also an id the node runs as authentication application offered for accounting only)
                return M("CE", True, hbh, e2e, oh=rng.choice(cand) if rng.random() < 0.9 else rng.choice(known),
                         auth=[4, 3] if good else rng.choice([[], [77]]), acct=[3] if good else rng.choice([[], [4], [77]]), relay=rng.random() < 0.05)
            if rng.random() < 0.1 and getattr(vc, "dialled", None):
                # the dialled peer sends a CER of its own instead of answering the node's (an outbound connection expects a CEA)
                return M("CE", True, hbh, e2e, oh=vc.dialled, auth=[4, 3], acct=[3])
            kind = "cea"
        # each connection carries at most one CER (RFC 6733 5.3); after a successful exchange no further CE
        # messages are sent unless the profile asks for them (C06 leaves that behaviour unspecified)
        if kind in ("cer", "cea") and not self.focus.get("ce_after_success") and (st not in ("CONNECTED", "") or getattr(vc, "ce_done", False)):
            kind = rng.choice(["dwr", "req", "dwa"])
        if kind == "cea" and vc.dir == "in" and getattr(vc, "cer_sent", False):
            kind = "dwa"
        if kind == "cer" and (getattr(vc, "cer_sent", False) or vc.dir == "out") and not self.focus.get("multi_cer"):
            kind = rng.choice(["dwr", "req"])
        if kind == "cer":
            vc.cer_sent = True
            vc.ce_done = True
            auth = rng.choice([[4], [4], [3], [4, 3], [], [77]])
            return M("CE", True, hbh, e2e, oh=claimed if rng.random() < 0.95 else "", auth=auth, acct=rng.choice([[], [], [3]]),
                     relay=rng.random() < 0.1)
        if kind == "cea":
            # answer the node's CER if there is one outstanding on this connection
            pend = [m for m in vc.tx if m["cmd"] == "CE" and m["req"]]
            if pend and rng.random() < 0.85:
                hbh, e2e = pend[-1]["hbh"], pend[-1]["e2e"]
            if vc.dir == "out":
                vc.ce_done = True
            return M("CE", False, hbh, e2e, oh=claimed if rng.random() < 0.9 else "", rc=rng.choice([2001, 2001, 2001, 3010, 5010]),
                     auth=[4, 3])
        if kind in ("dwr", "dpr"):
            return M("DW" if kind == "dwr" else "DP", True, hbh, e2e, oh=claimed if rng.random() < 0.95 else "")
        if kind in ("dwa", "dpa"):
            cmd = "DW" if kind == "dwa" else "DP"
            pend = [m for m in vc.tx if m["cmd"] == cmd and m["req"]]
            if pend and rng.random() < 0.8:
                hbh, e2e = pend[-1]["hbh"], pend[-1]["e2e"]
            elif not pend and kind == "dwa" and (hbh + e2e) % 2 == 0:
                # an unsolicited watchdog answer bearing the identifiers of an application request the node has in flight here
                # (no draw from the random stream: every other history stays as it was)
                papp = [m for m in vc.tx if m["cmd"] == "APP" and m["req"]]
                if papp:
                    hbh, e2e = papp[-1]["hbh"], papp[-1]["e2e"]
            # (an answer is an answer whatever its result: every fourth one reports an error; derived from the identifiers so that
            #  the random stream - and with it every other history - stays as it was)
            return M(cmd, False, hbh, e2e, oh=claimed if rng.random() < 0.9 else "", rc=2001 if (hbh + e2e) % 4 else 3004)
        if kind == "req":
            return M("APP", True, hbh, e2e, app=rng.choice(self.app_ids), oh=claimed if rng.random() < 0.95 else "",
                     realm=rng.choices(self.realms, weights=[8, 1, 1, 1, 1])[0], T=rng.random() < 0.3, miss=rng.random() < 0.1)
        if kind == "ans":
            pend = [m for m in vc.tx if m["cmd"] == "APP" and m["req"]]
            if pend and rng.random() < 0.85:
                x = rng.choice(pend[-3:])
                return M("APP", False, x["hbh"], x["e2e"], app=x["app"], oh=claimed if rng.random() < 0.9 else "", rc=2001)
            return M("APP", False, hbh, e2e, app=rng.choice(self.app_ids), oh=claimed if rng.random() < 0.8 else "", rc=2001)
        if kind == "ureq":
            return M("APP", True, hbh, e2e, app=rng.choice(self.app_ids), oh=claimed if rng.random() < 0.8 else "",
                     realm=rng.choices(self.realms, weights=[8, 1, 1, 1, 2])[0], T=rng.random() < 0.3, typed=False, code=9999)
        return M("APP", False, hbh, e2e, app=rng.choice(self.app_ids), oh=claimed if rng.random() < 0.5 else "", rc=2001, typed=False, code=9999)

    def conn_state(self, vc):
        from .world import STATE
        for conn in list(self.r.w.node.connections.values()):
            if self.r.w.c_of(conn) == vc.c:
                return STATE.get(conn.state, "?")
        return ""

    def next_action(self):
        rng = self.rng
        w = self.r.w
        # runs of silence: several clock ticks in a row (timeouts need the node to be left alone)
        if getattr(self, "pending_ticks", 0) > 0:
            self.pending_ticks -= 1
            return {"a": "tick"}
        open_vcs = [vc for c, vc in sorted(self.r.vcs.items()) if not vc.closed and not vc.sock.remote_closed]
        connecting = [vc for vc in open_vcs if vc.sock.connecting]
        usable = [vc for vc in open_vcs if not vc.sock.connecting and (vc.sock.connected)]
        choices = [("tick", 5)]
        if w.npc + len(w.s.net.listeners[0].backlog if w.s.net.listeners else []) < self.max_conn - 1 and w.s.net.listeners:
            choices.append(("connect", 2 if usable else 5))
        pending = [vc for vc in usable if getattr(vc, "frag", None)]
        if pending:                      # a half-delivered message: deliver the rest (or let time pass / lose the peer)
            vc = pending[0]
            x = rng.random()
            if x < 0.6:
                m, i, n = vc.frag
                return {"a": "frag", "c": vc.c, "m": m, "i": i + 1, "n": n}
            return {"a": "tick"} if x < 0.9 else {"a": "peer_close", "c": vc.c}
        if usable:
            choices += [("feed", 12), ("peer_close", 1), ("peer_reset", 1), ("garbage", 0), ("frag", 0), ("send_error", 0), ("stall", 0)]
            if len(usable) >= 2:
                choices.append(("multi", 0))
        if connecting:
            choices.append(("connect_result", 6))
        if self.r.held:
            choices.append(("submit", 4))
        if getattr(self.r, "answered", None) and self.focus.get("resubmit"):
            choices.append(("resubmit", 2))
        if any(p["persistent"] for p in self.r.full_cfg["peers"]):
            choices.append(("plan", 1))
        if self.focus.get("send") and self.r.full_cfg["apps"]:
            choices.append(("send", self.focus["send"]))
        if self.focus.get("stop") and not getattr(self, "stopped", False):
            choices.append(("stop", self.focus["stop"]))
        aw = self.focus.get("act", {})
        choices = [(nm, aw.get(nm, wt)) for nm, wt in choices if aw.get(nm, wt) > 0]
        names, weights = zip(*choices)
        a = rng.choices(names, weights=weights)[0]
        if a == "tick" and rng.random() < 0.35:
            self.pending_ticks = rng.randint(1, 4)
        if a == "tick" or a == "connect":
            return {"a": a}
        if a == "stop":
            self.stopped = True
            return {"a": "stop", "force": rng.random() < 0.25, "wait": rng.choice([1, 2, 3, 5, 8])}
        if a == "feed":
            vc = rng.choice(usable)
            n = 1 if (rng.random() < 0.7 or self.focus.get("single")) else 2
            if getattr(self, "stopped", False) and rng.random() < 0.3:
                # a request and the answer to the node's DPR in one network read: output is pending when the DPA arrives
                hbh, e2e = self._ids()
                host = next((p["host"] for p in self.r.full_cfg["peers"] if w.peers[p["name"]].connection is not None
                             and w.c_of(w.peers[p["name"]].connection) == vc.c), None)
                if host:
                    first = M("DW", True, hbh, e2e, oh=host) if rng.random() < 0.6 else M("APP", True, hbh, e2e, app=4, oh=host, realm="r1")
                    pend = [m for m in vc.tx if m["cmd"] == "DP" and m["req"]]
                    h2, e2 = (pend[-1]["hbh"], pend[-1]["e2e"]) if pend else self._ids()
                    return {"a": "feed", "c": vc.c, "ms": [first, M("DP", False, h2, e2, oh=host, rc=2001)]}
            return {"a": "feed", "c": vc.c, "ms": [self.message(vc) for _ in range(n)]}
        if a in ("peer_close", "peer_reset", "garbage"):
            return {"a": a, "c": rng.choice(usable).c}
        if a == "stall":
            cand = [vc for vc in usable if vc.sock.writable]
            return {"a": a, "c": rng.choice(cand).c} if cand else {"a": "tick"}
        if a == "multi":
            two = rng.sample(usable, 2)
            kind = rng.choice(["garbage", "peer_close", "peer_reset"])
            return {"a": "multi", "acts": [{"a": kind, "c": vc.c} for vc in sorted(two, key=lambda v: v.c)]}
        if a == "send_error":
            cand = [vc for vc in usable if not vc.sock.send_script]
            return {"a": a, "c": rng.choice(cand).c} if cand else {"a": "tick"}
        if a == "frag":
            vc = rng.choice(usable)
            hbh, e2e = self._ids()
            host = getattr(vc, "dialled", None) or rng.choice(self.hosts)
            for p in self.r.full_cfg["peers"]:
                po = w.peers[p["name"]]
                if po.connection is not None and w.c_of(po.connection) == vc.c:
                    host = p["host"]
            return {"a": "frag", "c": vc.c, "m": M("DW", True, hbh, e2e, oh=host), "i": 1, "n": rng.choice([2, 3, 4])}
        if a == "connect_result":
            return {"a": a, "c": rng.choice(connecting).c, "err": rng.choice([0, 0, 0, 111])}
        if a == "send":
            self.nsend = getattr(self, "nsend", 0) + 1
            app = rng.choice(self.r.full_cfg["apps"])
            hosts = [""] + [p["host"] for p in self.r.full_cfg["peers"]]
            return {"a": "send", "k": self.nsend, "app": app["name"], "realm": rng.choices(["r1", "r2", "r3", "r9"], weights=[8, 2, 1, 1])[0],
                    "timeout": rng.choice([1, 2, 3, 30]), "pick": rng.choice(["first", "last", "default"]),
                    "dhost": hosts[self.nsend % len(hosts)]}       # (derived from the count: the random stream stays as it was)
        if a == "resubmit":
            name, req = rng.choice(self.r.answered)
            from .world import abs_from_msg
            am = abs_from_msg(req)
            typed = am["code"] == 272
            ans = M("APP", False, am["hbh"], am["e2e"], app=am["app"], oh=NODE_HOST if typed else "", rc=2001 if typed else 0,
                    typed=typed, code=am["code"])
            return {"a": "submit", "app": name, "m": ans, "c0": self.r.w.msg_conn.get(id(req), (0, None))[0], "_req": req}
        if a == "submit":
            name, req = self.r.held.pop(rng.randrange(len(self.r.held)))
            if not hasattr(self.r, "answered"):
                self.r.answered = []
            self.r.answered.append((name, req))
            from .world import abs_from_msg
            am = abs_from_msg(req)
            typed = am["code"] == 272
            # (answers of commands without a python class carry no AVPs on the wire)
            ans = M("APP", False, am["hbh"], am["e2e"], app=am["app"], oh=NODE_HOST if typed else "", rc=(3004 if rng.random() < 0.25 else 2001) if typed else 0,
                    typed=typed, code=am["code"])
            return {"a": "submit", "app": name, "m": ans, "c0": self.r.w.msg_conn.get(id(req), (0, None))[0], "_req": req}
        if a == "plan":
            return {"a": "plan", "plan": [rng.choice(["ok", "inprogress", "inprogress", "fail"]) for _ in range(rng.randint(1, 3))]}
        raise AssertionError(a)


def random_history(seed, length=14, variant=None, max_conn=6, focus=None, cfg=None, cfg_id=None):
    rng = random.Random(seed)
    cfg = cfg or default_cfg(random.Random(cfg_id) if cfg_id is not None else rng, variant)
    r = Runner(cfg, seed=seed)
    try:
        g = Gen(r, rng, max_conn=max_conn, focus=focus)
        if any(p["persistent"] for p in r.full_cfg["peers"]) and rng.random() < 0.7:
            r.do({"a": "plan", "plan": [rng.choice(["ok", "inprogress", "fail"]) for _ in range(rng.randint(1, 2))]})
        r.do({"a": "start"})
        for _ in range(length):
            if r.w.npc >= max_conn:
                break
            r.do(g.next_action())
        params = model_params(r.full_cfg, max_conn=max_conn)
        return {"params": params, "steps": r.steps, "exits": [(n, e) for n, e, _ in r.w.s.exits], "seed": seed}
    finally:
        r.close()


# ----------------------------------------------------------------------
# conformance of recorded histories with Node.tla (TLC evaluates the spec along each trace)
# ----------------------------------------------------------------------
def conf_batch(params, traces, tag, timeout=1800):
    """traces: list of step lists (same configuration).  -> list of result records (ok/at/out/snap)"""
    import json
    import os
    from . import tlc
    d = os.path.join(tlc.OUT, tag + "_in")
    os.makedirs(d, exist_ok=True)
    pp = os.path.join(d, "params.json")
    tp = os.path.join(d, "traces.json")
    json.dump(params, open(pp, "w"))
    json.dump(traces, open(tp, "w"))
    import subprocess
    outp = os.path.join(d, "out.json")
    if os.path.exists(outp):
        os.remove(outp)
    cfg = ("INIT EvInit\nNEXT EvNext\nCHECK_DEADLOCK FALSE\nCONSTANTS\n NodeCfg <- CNodeCfg\n PeerCfg <- CPeerCfg\n AppCfg <- CAppCfg\n"
           " AppOrder <- CAppOrder\n MaxConn <- CMaxConn\n PeerOrder <- CPeerOrder\n Pinned <- CPinned\n")
    r = tlc.run("Conf_Node", cfg, tag, workers=1, env={"PARAMS": pp, "TRACES": tp, "OUT": outp}, timeout=timeout, heap="4g")
    if not os.path.exists(outp):
        raise tlc.TlcError("Conf_Node produced no output:\n" + r["out"][-4000:])
    return json.load(open(outp))


def mon_batch(params, traces, tag, timeout=1800):
    """Evaluate the property monitors (spec/Mon_*.tla via MonEval) on traces of one configuration.
    -> list (per trace) of {monitor: [ {sig, at} ... ]}"""
    import json
    import os
    from . import tlc
    d = os.path.join(tlc.OUT, tag + "_in")
    os.makedirs(d, exist_ok=True)
    pp = os.path.join(d, "params.json")
    tp = os.path.join(d, "traces.json")
    json.dump(params, open(pp, "w"))
    json.dump(traces, open(tp, "w"))
    outp = os.path.join(d, "out.json")
    if os.path.exists(outp):
        os.remove(outp)
    cfg = "INIT EvInit\nNEXT EvNext\nCHECK_DEADLOCK FALSE\n"
    r = tlc.run("MonEval", cfg, tag, workers=1, env={"PARAMS": pp, "TRACES": tp, "OUT": outp}, timeout=timeout, heap="4g")
    if not os.path.exists(outp):
        raise tlc.TlcError("MonEval produced no output:\n" + r["out"][-4000:])
    return json.load(open(outp))


def replay_acts(cfg, acts, seed=0, max_conn=9, pinned=(), free_from=None):
    """Execute a given action sequence (from a TLC behaviour or a stored replay) on the real node.
    free_from = k: the first k actions run at the atomic grain, the rest at the free grain."""
    r = Runner(cfg, seed=seed)
    try:
        for i, a in enumerate(acts):
            if free_from is not None and i >= free_from:
                r.free = True
            r.do(dict(a))
        params = model_params(r.full_cfg, max_conn=max_conn, pinned=pinned)
        return {"params": params, "steps": r.steps, "exits": [(n, e) for n, e, _ in r.w.s.exits], "cfg": cfg}
    finally:
        r.close()
