"""Schedule-quantified scenarios on the real node (C09, C10): a short atomic prefix brings the node
into a state, then one action is executed under every thread schedule with at most P preemptions
(scheduling points: every visible operation of the runtime; for C09 additionally the source lines of
Node.route_answer).  Each execution is recorded as a trace whose last step holds the observations
of the explored action; the property monitors (Mon_C09 / Mon_C10) judge it through TLC.
"""
from __future__ import annotations

import json

from . import nodetrace as nt, explore, simrt, msgs
from .world import peer_cfg, app_cfg, abs_from_msg

CFG = {"node": {"idle": 30, "dwa": 4, "cer": 4, "cea": 4, "wakeup": 6, "retx": 4},
       "peers": [peer_cfg("p1")], "apps": [app_cfg("a1", 4, peers=["p1"], handler="hold")]}


def _setup():
    r = nt.Runner(CFG, seed=1)
    r.do({"a": "start"})
    st = r.do({"a": "connect"})
    c = st["out"][0]["c"]
    r.do({"a": "feed", "c": c, "ms": [nt.M("CE", True, 1, 1, oh="p1.r1", auth=[4])]})
    return r, c


def c10_send_with_fast_peer(policy):
    """send_request to a peer that answers the instant the request is on the wire."""
    r, c = _setup()
    w = r.w
    try:
        vc = r.vcs[c]
        orig = vc.sock.on_send
        answered = []

        def on_send(sock, data):
            n0 = len(vc.tx)
            orig(sock, data)
            for m in vc.tx[n0:]:
                if m["cmd"] == "APP" and m["req"]:
                    ans = nt.concrete(nt.M("APP", False, m["hbh"], m["e2e"], app=m["app"], oh="p1.r1", rc=2001))
                    sock.feed(ans)
                    answered.append((m["hbh"], m["e2e"]))
                    w.s.emit("auto_answer", k=1)
        vc.sock.on_send = on_send
        act = {"a": "send", "k": 1, "app": "a1", "realm": "r1", "timeout": 30, "pick": "first"}
        r._mark = len(w.s.obs)
        app = w.apps["a1"]
        NotRoutable = w.ns.node.NotRoutable

        def sender():
            req = msgs.ccr(nt.NODE_HOST, dest_realm="r1", hbh=0, e2e=0, app=0)
            hbh = e2e = 0
            try:
                ans = app.send_request(req, timeout=30)
                res, hbh, e2e = "answer", ans.header.hop_by_hop_identifier, ans.header.end_to_end_identifier
            except NotRoutable:
                res = "NotRoutable"
            except TimeoutError:
                res, hbh, e2e = "Timeout", req.header.hop_by_hop_identifier, req.header.end_to_end_identifier
            except Exception as e:
                res = type(e).__name__
            w.s.emit("req_result", k=1, r=res, hbh=hbh, e2e=e2e)
        w.s.fine = True
        w.s.policy = policy
        w.spawn(sender, name="sender-1")
        w.s.run()
        w.s.fine = False
        from .world import role_policy
        w.s.policy = role_policy
        out = r._collect()
        out += [{"ev": "auto_answer", "k": 1} for e in w.s.obs if e["ev"] == "auto_answer"][:1]
        r.steps.append({"act": act, "out": out, "snap": w.snap()})
        return {"steps": r.steps, "exits": [(n, e) for n, e, _ in w.s.exits], "params": nt.model_params(r.full_cfg, max_conn=6)}
    finally:
        r.close()


def c09_concurrent_double_submit(policy):
    """two application threads submit an answer for the same request at the same time"""
    r, c = _setup()
    w = r.w
    try:
        r.do({"a": "feed", "c": c, "ms": [nt.M("APP", True, 7, 8, app=4, oh="p1.r1", realm="r1")]})
        name, req = r.held.pop()
        app = w.apps[name]
        code = w.ns.node.Node.route_answer.__code__
        w.s.tracing = False
        act = {"a": "submit", "app": name, "c0": c, "m": nt.M("APP", False, 7, 8, app=4, oh=nt.NODE_HOST, rc=2001), "twice": True}
        r._mark = len(w.s.obs)
        # the line tracer must be installed before the threads start
        w.s.tracefn = explore.make_line_tracer(w.s, {code: "route_answer"}, call_boundaries=False)

        def submitter():
            ans = app.generate_answer(req, result_code=2001)
            app.submit(ans)
        t1 = w.spawn(submitter, name="submit-1")
        t2 = w.spawn(submitter, name="submit-2")
        w.s.tracing = True
        w.s.policy = policy
        w.s.run()
        w.s.tracing = False
        from .world import role_policy
        w.s.policy = role_policy
        w.s.run()
        out = r._collect()
        r.steps.append({"act": act, "out": out, "snap": w.snap()})
        return {"steps": r.steps, "exits": [(n, e) for n, e, _ in w.s.exits], "params": nt.model_params(r.full_cfg, max_conn=6)}
    finally:
        r.close()


CFG2 = {"node": {"idle": 30, "dwa": 4, "cer": 4, "cea": 4, "wakeup": 1, "retx": 4},
        "peers": [peer_cfg("p1"), peer_cfg("p2")], "apps": [app_cfg("a1", 4, peers=["p1", "p2"], handler="answer")]}


def _setup2():
    r = nt.Runner(CFG2, seed=1)
    r.do({"a": "start"})
    cs = []
    for host in ("p1.r1", "p2.r1"):
        st = r.do({"a": "connect"})
        c = st["out"][0]["c"]
        r.do({"a": "feed", "c": c, "ms": [nt.M("CE", True, 1, 1, oh=host, auth=[4])]})
        cs.append(c)
    return r, cs


def c10_answer_after_many_other_requests(n_between):
    """a sender waits for its answer while n_between other requests are routed and sent (never answered); then its answer
    arrives: it must still reach the sender.  (The bulk is not part of the recorded trace.)"""
    r, c = _setup()
    w = r.w
    try:
        r.do({"a": "send", "k": 1, "app": "a1", "realm": "r1", "timeout": 100000, "pick": "first"})
        first = [e["m"] for st in r.steps for e in st["out"] if e["ev"] == "tx" and e["m"]["cmd"] == "APP" and e["m"]["req"]]
        assert len(first) == 1, "setup: the first request was not sent"
        app = w.apps["a1"]
        for i in range(n_between):
            req = msgs.ccr(nt.NODE_HOST, dest_realm="r1", hbh=0, e2e=0, app=0)
            req.header.end_to_end_identifier = w.node.end_to_end_seq.next_sequence()
            conn, msg = w.node.route_request(app, req)
            w.node.send_message(conn, msg)
            if i % 256 == 255:
                w.run()
                r.vcs[c].tx.clear()
                r.vcs[c].tx_frames.clear()
                del w.s.obs[:]
        w.run()
        del w.s.obs[:]
        r._mark = 0
        m = first[0]
        r.do({"a": "feed", "c": c, "ms": [nt.M("APP", False, m["hbh"], m["e2e"], app=m["app"], oh="p1.r1", rc=2001)]})
        r.do({"a": "tick"})
        return {"steps": r.steps, "exits": [(n, e) for n, e, _ in w.s.exits], "params": nt.model_params(r.full_cfg, max_conn=6)}
    finally:
        r.close()


def c06_cer_rejected_under_every_schedule(policy, host="x.r9"):
    """a CER that must be rejected (unknown peer: 3010 and close) arrives; reader, writer and I/O loop run under every
    schedule (visible operations, before and after each): the connection must end up closed however the CEA is flushed"""
    from .world import role_policy
    r = nt.Runner(CFG2, seed=1)
    w = r.w
    try:
        r.do({"a": "start"})
        st = r.do({"a": "connect"})
        c = st["out"][0]["c"]
        m = nt.M("CE", True, 1, 1, oh=host, auth=[4])
        act = {"a": "feed", "c": c, "ms": [m]}
        r._mark = len(w.s.obs)
        w.s.emit("fed", c=c, m=None)
        r.vcs[c].sock.feed(nt.concrete(m))
        w.s.fine = True
        w.s.policy = policy
        w.s.run()
        w.s.fine = False
        w.s.policy = role_policy
        w.s.run()
        out = r._collect()
        r.steps.append({"act": act, "out": out, "snap": w.snap()})
        r.do({"a": "tick"})
        return {"steps": r.steps, "exits": [(n, e) for n, e, _ in w.s.exits], "params": nt.model_params(r.full_cfg, max_conn=6)}
    finally:
        r.close()


CFG3 = {"node": {"idle": 2, "dwa": 4, "cer": 4, "cea": 4, "wakeup": 1, "retx": 4},
        "peers": [peer_cfg("p1"), peer_cfg("p2")], "apps": [app_cfg("a1", 4, peers=["p1", "p2"], handler="answer")]}


def c11_watchdog_due_while_other_connection_busy(policy):
    """connection 1 has been silent for longer than its idle timeout at the very instant connection 2 delivers a watchdog
    request: the I/O loop runs its timer checks, is woken again by connection 2's answer, runs them again - under every
    schedule of the I/O loop, the readers and the writers (visible operations; `policy`)"""
    from .world import role_policy
    r = nt.Runner(CFG3, seed=1)
    w = r.w
    try:
        r.do({"a": "start"})
        cs = []
        for host in ("p1.r1", "p2.r1"):
            st = r.do({"a": "connect"})
            c = st["out"][0]["c"]
            r.do({"a": "feed", "c": c, "ms": [nt.M("CE", True, 1, 1, oh=host, auth=[4])]})
            cs.append(c)
        c1, c2 = cs
        for k in (1, 2):            # connection 2 keeps talking, connection 1 stays silent
            r.do({"a": "tick"})
            r.do({"a": "feed", "c": c2, "ms": [nt.M("DW", True, 10 + k, 20 + k, oh="p2.r1")]})
        m = nt.M("DW", True, 13, 23, oh="p2.r1")
        act = {"a": "multi", "acts": [{"a": "tick"}, {"a": "feed", "c": c2, "ms": [m]}]}
        r._mark = len(w.s.obs)
        w.s.advance(1)
        w.s.emit("tick")
        w.s.emit("fed", c=c2, m=None)
        r.vcs[c2].sock.feed(nt.concrete(m))
        w.s.fine = True
        w.s.policy = policy
        w.s.run()
        w.s.fine = False
        w.s.policy = role_policy
        w.s.run()
        out = r._collect()
        r.steps.append({"act": act, "out": out, "snap": w.snap()})
        r.do({"a": "tick"})
        return {"steps": r.steps, "exits": [(n, e) for n, e, _ in w.s.exits], "params": nt.model_params(r.full_cfg, max_conn=6)}
    finally:
        r.close()


def _stopper(w, force, wait):
    def run():
        try:
            w.node.stop(wait_timeout=wait, force=force)
            res = "ok"
        except simrt.SimKill:
            raise
        except BaseException as e:
            res = type(e).__name__
        w.s.emit("stop_done", r=res, listen=sum(1 for sk in w.s.net.sockets if sk.listening and not sk.closed),
                 nodeThreads=sum(1 for t in w.s.threads if t.is_alive() and getattr(t, "role", ("",))[0] in ("io", "stats")))
    return run


def c18_stop_while_peer_closes(policy):
    """Node.stop() is called while the I/O loop is about to remove a connection whose peer has just closed:
    scheduling points at every source line of Node.stop."""
    from .world import role_policy
    r, cs = _setup2()
    w = r.w
    try:
        code = w.ns.node.Node.stop.__code__
        w.s.tracing = False
        act = {"a": "stop", "force": False, "wait": 3, "also": {"a": "peer_close", "c": cs[0]}}
        r._mark = len(w.s.obs)
        w.s.tracefn = explore.make_line_tracer(w.s, {code: "stop"}, call_boundaries=False)
        w.s.emit("peer_close", c=cs[0])
        r.vcs[cs[0]].sock.remote_close()
        w.spawn(_stopper(w, False, 3), name="stopper", role="stop")
        w.s.tracing = True
        w.s.policy = policy
        w.s.run()
        w.s.tracing = False
        w.s.policy = role_policy
        w.s.run()
        r.steps.append({"act": act, "out": r._collect(), "snap": w.snap()})
        for _ in range(14):
            r.do({"a": "tick"})
        return {"steps": r.steps, "exits": [(n, e) for n, e, _ in w.s.exits], "params": nt.model_params(r.full_cfg, max_conn=6)}
    finally:
        r.close()


CFG4 = {"node": {"idle": 30, "dwa": 4, "cer": 4, "cea": 4, "wakeup": 1, "retx": 4},
        "peers": [peer_cfg("p1", persistent=True, rwait=2)], "apps": [app_cfg("a1", 4, peers=["p1"], handler="answer")]}


def c18_stop_while_reconnect_due(policy):
    """stop() is called at the instant a persistent peer's reconnect wait has elapsed: the I/O loop inside _reconnect_peers /
    _connect_to_peer against the stopping thread, scheduling points at every source line of the three functions.  Oracle
    (the statement's "dials no peers while stopping"): no connect() after stop() has marked the node as stopping."""
    import inspect
    from .world import role_policy
    r = nt.Runner(CFG4, seed=1)
    w = r.w
    try:
        N = w.ns.node.Node
        src, first = inspect.getsourcelines(N.stop)
        flag_line = next(first + i for i, ln in enumerate(src) if ln.strip() == "self._stopping = True")
        studied = {N.stop.__code__: "stop", N._reconnect_peers.__code__: "reconnect", N._connect_to_peer.__code__: "connect"}
        w.s.tracing = False
        # (stop() is a scheduling point up to the statements right after the flag is set; its wait loop is not)
        def lines_of(fn):
            s_, f_ = inspect.getsourcelines(fn)
            return set(range(f_, f_ + len(s_)))
        lf = {N.stop.__code__: set(range(first, flag_line + 4)), N._reconnect_peers.__code__: lines_of(N._reconnect_peers),
              N._connect_to_peer.__code__: lines_of(N._connect_to_peer)}
        base = explore.make_line_tracer(w.s, studied, call_boundaries=False, line_filter=lf)
        stop_code = N.stop.__code__

        def tracefn(frame, event, arg):
            local = base(frame, event, arg)
            if local is None or frame.f_code is not stop_code:
                return local
            seen = []

            def wrapped(fr, ev, a):
                if ev == "line" and fr.f_lineno > flag_line and not seen:      # the first line executed after the flag is set
                    seen.append(1)
                    w.s.emit("stopping_set", fds=sorted(w.fd2c))      # sockets of the connections registered with the node so far
                local(fr, ev, a)
                return wrapped          # (stay installed: a local trace function is replaced by what it returns)
            return wrapped
        w.s.tracefn = tracefn           # (installed before the node's threads start: the I/O loop is traced too)
        r.do({"a": "start"})
        c = next(e["c"] for e in r.steps[-1]["out"] if e["ev"] == "dial")
        r.do({"a": "connect_result", "c": c, "err": 111})      # the first attempt fails: the peer is now "lost"
        r.do({"a": "tick"})
        act = {"a": "stop", "force": False, "wait": 3, "also": {"a": "tick"}}
        r._mark = len(w.s.obs)
        w.s.advance(1)
        w.s.emit("tick")
        w.spawn(_stopper(w, False, 3), name="stopper", role="stop")
        w.s.tracing = True

        def two_threads(sched, enabled):
            # the race is between the I/O loop and the stopping thread: the other threads run when neither of them can
            pair = [t for t in enabled if getattr(t, "role", ("",))[0] in ("io", "stop")]
            return policy(sched, pair) if pair else role_policy(sched, enabled)
        w.s.policy = two_threads
        w.s.run()
        w.s.tracing = False
        w.s.policy = role_policy
        w.s.run()
        obs = w.s.obs[r._mark:]
        evs = [e["ev"] for e in obs]
        oracle = []
        if "stopping_set" in evs:
            k = evs.index("stopping_set")
            for e in obs[k:]:
                if e["ev"] == "dial":
                    # the dial's connection was registered with the node before stop() marked it as stopping (the decision and
                    # the refusal check both preceded stop(): a window of a few statements), or only afterwards
                    oracle.append("dial_while_stopping:connection_registered_before_stop" if e["fd"] in obs[k]["fds"]
                                  else "dial_while_stopping:connection_registered_after_stop_began")
        r.steps.append({"act": act, "out": r._collect(), "snap": w.snap()})
        for _ in range(6):
            r.do({"a": "tick"})
        return {"steps": r.steps, "exits": [(n, e) for n, e, _ in w.s.exits], "params": nt.model_params(r.full_cfg, max_conn=6),
                "oracle": oracle, "marker_seen": "stopping_set" in evs}
    finally:
        r.close()


def c18_dpa_with_output_pending(policy):
    """While stopping, a peer delivers a watchdog request and the DPA in one network read; reader, writer and
    I/O loop run under every schedule (scheduling points: every visible operation of the runtime)."""
    from .world import role_policy
    r, cs = _setup2()
    w = r.w
    try:
        r.do({"a": "stop", "force": False, "wait": 8})
        c = cs[0]
        vc = r.vcs[c]
        dpr = [m for m in vc.tx if m["cmd"] == "DP" and m["req"]][-1]
        act = {"a": "feed", "c": c, "ms": [nt.M("DW", True, 5, 5, oh="p1.r1"), nt.M("DP", False, dpr["hbh"], dpr["e2e"], oh="p1.r1", rc=2001)]}
        r._mark = len(w.s.obs)
        for m in act["ms"]:
            w.s.emit("fed", c=c, m=None)
        vc.sock.feed(b"".join(nt.concrete(m) for m in act["ms"]))
        w.s.fine = True
        w.s.policy = policy
        w.s.run()
        w.s.fine = False
        w.s.policy = role_policy
        w.s.run()
        r.steps.append({"act": act, "out": r._collect(), "snap": w.snap()})
        for _ in range(3):
            r.do({"a": "tick"})
        return {"steps": r.steps, "exits": [(n, e) for n, e, _ in w.s.exits], "params": nt.model_params(r.full_cfg, max_conn=6)}
    finally:
        r.close()


CFG_T = {"node": {"idle": 30, "dwa": 4, "cer": 4, "cea": 4, "wakeup": 1, "retx": 4},
         "peers": [peer_cfg("p1")], "apps": [app_cfg("a1", 4, peers=["p1"], kind="threading", max_threads=1, handler="answer")]}


def probe_acts(r, host="p1.r1", n_req=3, delay=0, first_c=None):
    """the reconnect-and-serve probe of C14: every open connection is closed, the node is left alone, then a peer
    connects, exchanges capabilities and sends n_req requests (each alone, the next after the previous was served)"""
    acts = []
    for c, vc in sorted(r.vcs.items()):
        if not vc.closed and not vc.sock.remote_closed and not vc.sock.connecting:
            acts.append({"a": "peer_close", "c": c})
    acts += [{"a": "tick"}] * 9
    return acts


def run_probe(r, host="p1.r1", n_req=3, delay=0, app_id=4, realm="r1"):
    for a in probe_acts(r):
        r.do(a)
    st = r.do({"a": "connect"})
    c = next((e["c"] for e in st["out"] if e["ev"] == "accept"), 0)
    if not c or c not in r.vcs:
        r.do({"a": "tick", "probe": "end"})
        return
    r.do({"a": "feed", "c": c, "ms": [nt.M("CE", True, 1, 1, oh=host, auth=[app_id])], "probe": "cer"})
    # the first probe requests reuse identifiers of earlier requests that were delivered to the application and never
    # answered (a restarted client retransmitting), the rest are fresh
    delivered, answered = [], set()
    for st_ in r.steps:
        for e in st_["out"]:
            if e["ev"] == "app_req" and e["m"]["code"] == 272:
                delivered.append((e["m"]["hbh"], e["m"]["e2e"]))
            elif e["ev"] == "tx" and not e["m"]["req"]:
                answered.add((e["m"]["hbh"], e["m"]["e2e"]))
    reuse = [k for k in dict.fromkeys(delivered) if k not in answered][:2] + [(1, 1), (2, 2)]
    for i in range(n_req):
        hbh, e2e = reuse[i] if i < 2 else (500 + i, 600 + i)
        r.do({"a": "feed", "c": c, "ms": [nt.M("APP", True, hbh, e2e, app=app_id, oh=host, realm=realm)], "probe": "req"})
        for _ in range(delay):
            r.do({"a": "tick"})
    r.do({"a": "tick"})
    r.do({"a": "tick", "probe": "end"})


def c14_peer_lost_while_request_in_progress(policy):
    """a request is processed by a threading application while the peer closes the connection: the close is injected
    at every scheduling point of reader / writer / application threads / I/O loop; then the probe"""
    from .world import role_policy
    r = nt.Runner(CFG_T, seed=1)
    w = r.w
    try:
        r.do({"a": "start"})
        st = r.do({"a": "connect"})
        c = st["out"][0]["c"]
        r.do({"a": "feed", "c": c, "ms": [nt.M("CE", True, 1, 1, oh="p1.r1", auth=[4])]})
        vc = r.vcs[c]
        req = nt.M("APP", True, 7, 8, app=4, oh="p1.r1", realm="r1")
        act = {"a": "feed", "c": c, "ms": [req], "also": {"a": "peer_close", "c": c}}
        r._mark = len(w.s.obs)
        w.s.emit("fed", c=c, m=None)
        vc.sock.feed(nt.concrete(req))

        def closer():
            w.s.emit("peer_close", c=c)
            vc.sock.remote_close()
        w.s.fine = True
        w.s.policy = policy
        w.spawn(closer, name="closer")
        w.s.run()
        w.s.fine = False
        w.s.policy = role_policy
        w.s.run()
        r.steps.append({"act": act, "out": r._collect(), "snap": w.snap()})
        run_probe(r, n_req=3)
        return {"steps": r.steps, "exits": [(n, e) for n, e, _ in w.s.exits], "params": nt.model_params(r.full_cfg, max_conn=6)}
    finally:
        r.close()


def explore_scenario(fn, max_preempt, max_runs=4000, whole=False):
    """-> list of (trace, schedule) for every schedule within the bound (distinct observation sequences only;
    of the last step, or of the whole trace)"""
    seen = {}
    n = 0
    for res, pol in explore.explore(fn, max_preempt, max_runs=max_runs):
        n += 1
        key = json.dumps([st["out"] for st in res["steps"]] if whole else res["steps"][-1]["out"], sort_keys=True) + json.dumps(res["exits"])
        if key not in seen:
            seen[key] = (res, [x[1] for x in pol.records])
    return list(seen.values()), n
