"""Run TLC (exhaustive / simulate / evaluator / batch trace validation) and parse its output."""
from __future__ import annotations

import json
import os
import re
import shutil
import subprocess
import time

VERIF = os.path.dirname(os.path.dirname(os.path.abspath(__file__)))
SPEC = os.path.join(VERIF, "spec")
OUT = os.path.join(VERIF, "out")
JAR = "/opt/veriftools/tla/tla2tools.jar:/opt/veriftools/tla/CommunityModules-deps.jar"


class TlcError(Exception):
    pass


def _mk(tag: str) -> str:
    d = os.path.join(OUT, tag)
    shutil.rmtree(d, ignore_errors=True)
    os.makedirs(d, exist_ok=True)
    return d


def cfg_text(constants: dict | None = None, spec: str | None = "Spec", init=None, next_=None,
             invariants=(), properties=(), constraints=(), view=None, symmetry=None,
             postcondition=None, deadlock=False, action_constraints=()) -> str:
    lines = []
    if spec:
        lines.append("SPECIFICATION %s" % spec)
    else:
        lines.append("INIT %s" % init)
        lines.append("NEXT %s" % next_)
    if constants:
        lines.append("CONSTANTS")
        for k, v in constants.items():
            lines.append("  %s = %s" % (k, tla_val(v)) if not (isinstance(v, str) and v.startswith("<-")) else "  %s %s" % (k, v))
    for i in invariants:
        lines.append("INVARIANT %s" % i)
    for p in properties:
        lines.append("PROPERTY %s" % p)
    for c in constraints:
        lines.append("CONSTRAINT %s" % c)
    for c in action_constraints:
        lines.append("ACTION_CONSTRAINT %s" % c)
    if view:
        lines.append("VIEW %s" % view)
    if symmetry:
        lines.append("SYMMETRY %s" % symmetry)
    if postcondition:
        lines.append("POSTCONDITION %s" % postcondition)
    lines.append("CHECK_DEADLOCK %s" % ("TRUE" if deadlock else "FALSE"))
    return "\n".join(lines) + "\n"


def tla_val(v) -> str:
    """Python value -> TLA+ cfg literal."""
    if isinstance(v, bool):
        return "TRUE" if v else "FALSE"
    if isinstance(v, int):
        return str(v)
    if isinstance(v, str):
        if v.startswith("@"):        # raw literal / model value
            return v[1:]
        return '"%s"' % v
    if isinstance(v, (set, frozenset)):
        return "{" + ", ".join(sorted(tla_val(x) for x in v)) + "}"
    if isinstance(v, (list, tuple)):
        return "<<" + ", ".join(tla_val(x) for x in v) + ">>"
    if isinstance(v, dict):
        return "[" + ", ".join("%s |-> %s" % (k, tla_val(x)) for k, x in v.items()) + "]"
    raise TypeError(v)


_RE_STATES = re.compile(r"(\d+) states generated, (\d+) distinct states found, (\d+) states left on queue")
_RE_DEPTH = re.compile(r"The depth of the complete state graph search is (\d+)")
_RE_INV = re.compile(r"Error: Invariant (\S+) is violated")
_RE_PROP = re.compile(r"Error: (?:Action property|Temporal properties|Temporal property|Property) ?(\S*)")
_RE_COV = re.compile(r"^<(\w+) line (\d+), col \d+ to line \d+, col \d+ of module (\w+)(?: \([\d ]+\))?>: (\d+):(\d+)", re.M)


def run(module: str, cfg: str, tag: str, workers: int | str = 16, timeout: int = 600,
        extra: list[str] | None = None, env: dict | None = None, coverage: bool = False,
        simulate: str | None = None, depth: int | None = None, seed: int | None = None,
        dfs_queue: bool = False, heap: str = "6g") -> dict:
    """Run TLC on spec/<module>.tla with the given cfg text.  -> result dict."""
    d = _mk(tag)
    cfgp = os.path.join(d, module + ".cfg")
    with open(cfgp, "w") as f:
        f.write(cfg)
    cmd = ["java", "-XX:+UseParallelGC", "-Xmx" + heap, "-Xss64m"]      # deep operator recursion (Quiesce inside a 100-second jump)
    if dfs_queue:
        cmd.append("-Dtlc2.tool.queue.IStateQueue=StateDeque")
    cmd += ["-cp", JAR, "tlc2.TLC", "-workers", str(workers), "-metadir", os.path.join(d, "meta"),
            "-noGenerateSpecTE", "-config", cfgp]
    if coverage:
        cmd += ["-coverage", "1"]
    if simulate is not None:
        cmd += ["-simulate", simulate]
    if depth is not None:
        cmd += ["-depth", str(depth)]
    if seed is not None:
        cmd += ["-seed", str(seed)]
    if extra:
        cmd += extra
    cmd.append(os.path.join(SPEC, module + ".tla"))
    e = dict(os.environ)
    e.pop("JAVA_TOOL_OPTIONS", None)
    if env:
        e.update({k: str(v) for k, v in env.items()})
    t0 = time.time()
    timed_out = False
    try:
        p = subprocess.run(cmd, cwd=SPEC, env=e, capture_output=True, text=True, timeout=timeout)
        out = p.stdout + p.stderr
        rc = p.returncode
    except subprocess.TimeoutExpired as ex:
        out = (ex.stdout.decode() if isinstance(ex.stdout, bytes) else (ex.stdout or "")) + \
              (ex.stderr.decode() if isinstance(ex.stderr, bytes) else (ex.stderr or ""))
        rc = -9
        timed_out = True
        subprocess.run(["pkill", "-f", os.path.join(d, "meta")], capture_output=True)
    wall = time.time() - t0
    with open(os.path.join(d, "tlc.out"), "w") as f:
        f.write(out)
    res = {"module": module, "rc": rc, "wall_s": round(wall, 2), "timed_out": timed_out, "dir": d,
           "out": out, "generated": 0, "distinct": 0, "queue": 0, "depth": 0,
           "violated": [], "complete": False, "cmd": " ".join(cmd[cmd.index("tlc2.TLC"):])}
    ms = _RE_STATES.findall(out)
    if ms:
        g, dd, q = ms[-1]
        res.update(generated=int(g), distinct=int(dd), queue=int(q))
    m = _RE_DEPTH.search(out)
    if m:
        res["depth"] = int(m.group(1))
    res["violated"] = _RE_INV.findall(out) + [x for x in _RE_PROP.findall(out)]
    res["complete"] = ("Model checking completed. No error has been found." in out) and not timed_out
    if "Finished computing initial states" not in out and "Parsing file" in out and rc not in (0, 12, 13) and not res["violated"] and simulate is None and not timed_out:
        # parse / semantic / evaluation error
        if "Error:" in out or "error" in out.lower():
            res["error"] = True
    if coverage:
        cov = {}
        for name, line, mod, dist, tot in _RE_COV.findall(out):
            cov["%s.%s" % (mod, name)] = {"distinct": int(dist), "taken": int(tot)}
        res["coverage"] = cov
    return res


def must_ok(res: dict, what: str = ""):
    """Raise TlcError unless TLC finished a complete run (or simulate ended) without machinery errors."""
    out = res["out"]
    bad = ("Parse Error" in out or "Semantic error" in out or "TLC threw an unexpected exception" in out
           or "was not in the domain" in out or "Attempted to" in out or "Unknown operator" in out
           or "java.lang." in out and "Exception" in out or "StackOverflowError" in out or "OutOfMemoryError" in out)
    if bad and not res["violated"]:
        raise TlcError("TLC failed (%s): see %s/tlc.out\n%s" % (what, res["dir"], out[-3000:]))


def evaluate(module: str, cases, tag: str, timeout: int = 900, extra_env: dict | None = None):
    """TLC as evaluator: module must define ASSUME-based JSON in/out via IOEnv.CASES / IOEnv.OUT."""
    d = _mk(tag)
    cin = os.path.join(d, "cases.json")
    cout = os.path.join(d, "out.json")
    with open(cin, "w") as f:
        json.dump(cases, f)
    env = {"CASES": cin, "OUT": cout}
    if extra_env:
        env.update(extra_env)
    cfg = "INIT EvInit\nNEXT EvNext\nCHECK_DEADLOCK FALSE\n"
    cfgp = os.path.join(d, module + ".cfg")
    with open(cfgp, "w") as f:
        f.write(cfg)
    cmd = ["java", "-XX:+UseParallelGC", "-Xmx8g", "-Xss64m", "-cp", JAR, "tlc2.TLC", "-workers", "1",
           "-metadir", os.path.join(d, "meta"), "-noGenerateSpecTE", "-config", cfgp,
           os.path.join(SPEC, module + ".tla")]
    e = dict(os.environ)
    e.pop("JAVA_TOOL_OPTIONS", None)
    e.update(env)
    p = subprocess.run(cmd, cwd=SPEC, env=e, capture_output=True, text=True, timeout=timeout)
    out = p.stdout + p.stderr
    with open(os.path.join(d, "tlc.out"), "w") as f:
        f.write(out)
    if not os.path.exists(cout):
        raise TlcError("evaluator %s produced no output:\n%s" % (module, out[-3000:]))
    with open(cout) as f:
        return json.load(f)


def parse_sim_file(path: str):
    """Parse one behaviour file written by `-simulate file=...` -> list of (action_label, state_text)."""
    txt = open(path).read()
    steps = []
    for m in re.finditer(r"\\\* <(.*?)>\s*\nSTATE_(\d+) ==\s*(.*?)(?=\n\\\* <|\n=====|\Z)", txt, re.S):
        steps.append((m.group(1).strip(), m.group(3).strip()))
    return steps


def sany(module: str) -> str:
    p = subprocess.run(["java", "-cp", JAR, "tla2sany.SANY", os.path.join(SPEC, module + ".tla")],
                       cwd=SPEC, capture_output=True, text=True)
    return p.stdout + p.stderr
