"""CLI: ./check Cxx --tier quick|thorough [--replay PATH]"""
from __future__ import annotations

import argparse
import importlib
import os
import sys
import traceback


def main(argv=None):
    ap = argparse.ArgumentParser()
    ap.add_argument("pid")
    ap.add_argument("--tier", default=os.environ.get("VERIF_TIER", "quick"), choices=["quick", "thorough"])
    ap.add_argument("--replay", default=None)
    a = ap.parse_args(argv)
    seed = int(os.environ.get("VERIF_SEED", "1") or 1)
    pid = a.pid.upper()
    try:
        mod = importlib.import_module("harness.checks.%s" % pid.lower())
    except ModuleNotFoundError:
        print("MACHINERY no check for %s" % pid)
        return 2
    try:
        if a.replay:
            return mod.replay(a.replay, seed)
        return mod.run(a.tier, seed)
    except SystemExit:
        raise
    except BaseException:
        traceback.print_exc()
        print("MACHINERY check %s crashed (exit 2, not a verdict)" % pid)
        return 2


if __name__ == "__main__":
    sys.exit(main())
