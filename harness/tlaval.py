"""Parse TLA+ values printed by TLC (records, sequences, sets, functions, strings, ints, booleans)
and extract variable values from counterexample traces / -simulate behaviour files."""
from __future__ import annotations

import re


class _P:
    def __init__(self, s):
        self.s = s
        self.i = 0

    def ws(self):
        while self.i < len(self.s) and self.s[self.i] in " \t\r\n":
            self.i += 1

    def peek(self, k=1):
        self.ws()
        return self.s[self.i:self.i + k]

    def eat(self, tok):
        self.ws()
        if not self.s.startswith(tok, self.i):
            raise ValueError("expected %r at %d: %r" % (tok, self.i, self.s[self.i:self.i + 40]))
        self.i += len(tok)

    def value(self):
        self.ws()
        s = self.s
        if s.startswith("<<", self.i):
            self.i += 2
            out = []
            while self.peek(2) != ">>":
                out.append(self.value())
                if self.peek() == ",":
                    self.eat(",")
            self.eat(">>")
            return out
        c = s[self.i]
        if c == "[":
            self.i += 1
            out = {}
            if self.peek() == "]":
                self.eat("]")
                return out
            while True:
                self.ws()
                m = re.compile(r"[A-Za-z_][A-Za-z0-9_]*").match(s, self.i)
                if not m:
                    raise ValueError("field name expected at %d: %r" % (self.i, s[self.i:self.i + 40]))
                self.i = m.end()
                self.eat("|->")
                out[m.group(0)] = self.value()
                if self.peek() == ",":
                    self.eat(",")
                    continue
                self.eat("]")
                return out
        if c == "(":      # function printed as (k :> v @@ k2 :> v2)
            self.i += 1
            out = {}
            while True:
                k = self.value()
                self.eat(":>")
                out[k if isinstance(k, (str, int)) else str(k)] = self.value()
                if self.peek(2) == "@@":
                    self.eat("@@")
                    continue
                self.eat(")")
                return out
        if c == "{":
            self.i += 1
            out = []
            while self.peek() != "}":
                out.append(self.value())
                if self.peek() == ",":
                    self.eat(",")
            self.eat("}")
            return out
        if c == '"':
            j = self.i + 1
            buf = []
            while s[j] != '"':
                if s[j] == "\\":
                    j += 1
                buf.append(s[j])
                j += 1
            self.i = j + 1
            return "".join(buf)
        m = re.compile(r"-?\d+").match(s, self.i)
        if m:
            self.i = m.end()
            return int(m.group(0))
        for lit, v in (("TRUE", True), ("FALSE", False)):
            if s.startswith(lit, self.i):
                self.i += len(lit)
                return v
        m = re.compile(r"[A-Za-z_][A-Za-z0-9_]*").match(s, self.i)
        if m:   # model value
            self.i = m.end()
            return m.group(0)
        raise ValueError("cannot parse at %d: %r" % (self.i, s[self.i:self.i + 40]))


def parse(text: str):
    return _P(text).value()


def var_values(text: str, var: str):
    """All values of `/\\ var = ...` in a TLC trace / behaviour text, in order."""
    out = []
    for m in re.finditer(r"/\\ %s = " % re.escape(var), text):
        p = _P(text)
        p.i = m.end()
        out.append(p.value())
    return out
