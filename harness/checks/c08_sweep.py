"""C08, class sweep: required-AVP validation of every typed request class on the real node (spec/Validate.tla).

For every command with a typed request class: a request carrying every AVP the class requires, then the same request
with each required AVP removed, with pairs removed, with all removed (and, where the class has them, with optional AVPs
removed - which must change nothing).  The bytes are built from the definition table, not through the class under test.
TLC evaluates Validate!Outcome for each; the real node (one ready connection, one application for the request's
application id, handler holding requests) must deliver exactly the requests that pass and answer the others 5005 with a
Failed-AVP listing exactly the missing AVPs wherever the answer class declares one.
"""
from __future__ import annotations

import datetime
import itertools
import random

from .. import msgs, tlc
from ..world import World, peer_cfg, app_cfg
from ..load import load


def sample_avp(code, vendor, d, host, realm):
    from diameter.message import Avp, constants as K
    from diameter.message.avp import avp as A
    a = Avp.new(code, vendor)
    if code == K.AVP_ORIGIN_HOST and not vendor:
        a.value = host.encode()
    elif code in (K.AVP_ORIGIN_REALM, K.AVP_DESTINATION_REALM) and not vendor:
        a.value = realm.encode()
    elif isinstance(a, A.AvpGrouped):
        a.value = []
    elif isinstance(a, A.AvpAddress):
        a.value = "10.9.8.7"
    elif isinstance(a, A.AvpTime):
        a.value = datetime.datetime(2024, 1, 2, 3, 4, 5)
    elif isinstance(a, (A.AvpFloat32, A.AvpFloat64)):
        a.value = 1.5
    elif isinstance(a, A.AvpUtf8String):
        a.value = "v%d" % code
    elif isinstance(a, A.AvpOctetString):
        a.value = b"v%d" % code
    elif isinstance(a, (A.AvpInteger32, A.AvpInteger64, A.AvpUnsigned32, A.AvpUnsigned64, A.AvpEnumerated)):
        a.value = 1
    else:
        a.payload = b"\x00\x00\x00\x01"
    return a


def request_classes():
    from diameter.message.commands import all_commands
    out = []
    for code, base in sorted(all_commands.items()):
        if code in (257, 280, 282):
            continue
        subs = {s.__name__: s for s in base.__subclasses__()}
        req, ans = subs.get(base.__name__ + "Request"), subs.get(base.__name__ + "Answer")
        if req is not None and getattr(req, "avp_def", None):
            out.append((code, req, ans))
    return out


def variants(defs, rng, thorough):
    reqd = [i for i, d in enumerate(defs) if d["req"]]
    opt = [i for i, d in enumerate(defs) if not d["req"]]
    drops = [()] + [(i,) for i in reqd]
    pairs = list(itertools.combinations(reqd, 2))
    rng.shuffle(pairs)
    drops += pairs[:(12 if thorough else 3)]
    if len(reqd) > 2:
        drops.append(tuple(reqd))
    for _ in range(6 if thorough else 2):
        k = rng.randint(1, max(1, len(reqd)))
        drops.append(tuple(sorted(rng.sample(reqd, min(k, len(reqd))))))
    # optional AVPs present or absent change nothing
    if opt:
        drops.append(("opt",))
        if reqd:
            drops.append(("opt", reqd[0]))
    seen, out = set(), []
    for d in drops:
        if d not in seen:
            seen.add(d)
            out.append(d)
    return out


def run_sweep(ck, tier, seed):
    load()
    thorough = tier == "thorough"
    rng = random.Random(seed)
    cases, ctx = [], []
    classes = request_classes()
    for code, req, ans in classes:
        seen_keys = set()
        defs = []
        for d in req.avp_def:
            key = (d.avp_code, d.vendor_id)
            if key in seen_keys:
                continue
            seen_keys.add(key)
            defs.append({"code": d.avp_code, "vendor": d.vendor_id, "req": bool(d.is_required), "attr": d.attr_name})
        ansfa = bool(ans is not None and any(d.attr_name == "failed_avp" for d in ans.avp_def))
        for drop in variants(defs, rng, thorough):
            with_opt = "opt" in drop
            dropped = {i for i in drop if i != "opt"}
            present = [i for i, d in enumerate(defs) if i not in dropped and (d["req"] or with_opt)]
            cases.append({"defs": [{"code": d["code"], "vendor": d["vendor"], "req": d["req"]} for d in defs],
                          "present": [[defs[i]["code"], defs[i]["vendor"]] for i in present], "ansfa": ansfa})
            ctx.append((code, req, defs, present, drop))
    outs = []
    for off in range(0, len(cases), 500):
        outs += tlc.evaluate("Validate", cases[off:off + 500], "c08_validate_%d" % off, timeout=1800)
    # the real node: one world per command
    n = 0
    by_code = {}
    for (code, req, defs, present, drop), o in zip(ctx, outs):
        by_code.setdefault(code, []).append((req, defs, present, drop, o))
    for code, items in by_code.items():
        w = World(node={"validate": True, "idle": 1000}, peers=[peer_cfg("p1")], apps=[app_cfg("a1", 4, peers=["p1"], handler="hold")])
        try:
            w.start()
            vc = w.accept()
            w.feed(vc, [msgs.cer("p1.r1", hbh=7, e2e=77)])
            for k, (req, defs, present, drop, o) in enumerate(items):
                hbh, e2e = 100 + k, 5000 + k
                body = b"".join(sample_avp(defs[i]["code"], defs[i]["vendor"], defs[i], "p1.r1", "r1").as_bytes() for i in present)
                frame = msgs.hdr_bytes(code, 0xC0, 4, hbh, e2e, 20 + len(body)) + body
                mark = len(w.s.obs)
                ntx = len(vc.tx)
                w.feed(vc, [frame])
                n += 1
                deliv = [e for e in w.s.obs[mark:] if e["ev"] == "app_req" and e["m"]["hbh"] == hbh and e["m"]["e2e"] == e2e]
                answers = [m for m in vc.tx[ntx:] if not m["req"] and m["hbh"] == hbh and m["e2e"] == e2e]
                miss_names = [defs[i]["attr"] for i in range(len(defs)) if defs[i]["req"] and i not in present]
                rp = {"sweep": {"class": req.__name__, "missing": miss_names, "with_optional": "opt" in drop}}
                what = "%s without %s%s" % (req.__name__, miss_names or "nothing required", " (optional AVPs present)" if "opt" in drop else "")
                if o["pass"]:
                    # validation passes; realm r1 is served and the application matches -> delivered exactly once, not answered by the node
                    has_realm = any(defs[i]["code"] == 283 and defs[i]["vendor"] == 0 for i in present)
                    if any(m["rc"] == 5005 for m in answers):
                        ck.violation("complete_request_answered_5005:%s" % req.__name__, "%s: answered 5005 (Failed-AVP %r)" % (what, [m["x"]["fa"] for m in answers]), rp)
                    elif has_realm and len(deliv) != 1:
                        ck.violation("complete_request_not_delivered_once:%s" % req.__name__, "%s: delivered %d times, answers %r" % (what, len(deliv), [m["rc"] for m in answers]), rp)
                else:
                    if deliv:
                        ck.violation("request_missing_required_avp_delivered:%s" % "+".join(miss_names), "%s: handed to the application (answers of the node: %r)" % (what, [m["rc"] for m in answers]), rp)
                    if len(answers) != 1 or answers[0]["rc"] != 5005:
                        ck.violation("missing_avp_not_answered_5005:%s" % "+".join(miss_names), "%s: node's answers %r, expected one 5005" % (what, [m["rc"] for m in answers]), rp)
                    else:
                        got = sorted(map(tuple, answers[0]["x"]["fa"]))
                        want = sorted(map(tuple, o["fa"]))
                        if got != want or (want and answers[0]["x"]["nfa"] != 1):
                            ck.violation("failed_avp_does_not_list_the_missing_avps", "%s: Failed-AVP lists %r (%d Failed-AVP AVPs), missing are %r" % (
                                what, got, answers[0]["x"]["nfa"], want), rp)
        finally:
            w.close()
    ck.cov["sweep_request_classes"] = len(classes)
    ck.cov["sweep_requests_fed"] = n
    ck.cov["sweep_answer_classes_with_failed_avp"] = sum(1 for c in cases if c["ansfa"])
    return n
