"""C03 — typed command / grouped-container attributes map 1:1 onto dictionary AVPs and round-trip.

Model : spec/AttrMap.tla, evaluated by TLC (spec/AttrEval.tla) over the attribute tables read from the code
        under test (every avp_def of every typed command class and grouped container class):
        Viol (well-formedness, exhaustive over all ~3000 definitions), Gen (set attributes -> AVP tree),
        Restore / Canon (AVP tree -> attributes; RoundTrip is the design's own inverse law), Expose
        (untyped commands: names, lists, nesting).
Code  : for every generated case the class is instantiated, the attributes set, as_bytes() decoded
        generically and compared with Gen's tree (code, vendor, V/M flags, order, values, nesting); the
        bytes decoded into the typed class must restore exactly Canon's attributes (everything else unset)
        and re-encode to the same bytes; untyped commands must expose exactly Expose's attributes.
"""
from __future__ import annotations

import inspect
import json
import logging
import os
import random

from .. import codec, tlc
from ..common import Check, OUT
from diameter.message import Message, DefinedMessage, UndefinedMessage, Avp, AvpGrouped
from diameter.message._base import UndefinedGroupedAvp
from diameter.message.avp import grouped as groupedmod, avp as avpmod
from diameter.message.avp.generator import generate_avps_from_defs
from diameter.message.commands._attributes import assign_attr_from_defs


def _subs(c):
    for s in c.__subclasses__():
        yield s
        yield from _subs(s)


def collect():
    """-> (classes by name, tables by name)"""
    classes = {}
    for c in _subs(DefinedMessage):
        if getattr(c, "avp_def", ()):
            classes[c.__name__] = ("msg", c)
    pending = [c for n, c in vars(groupedmod).items() if inspect.isclass(c) and hasattr(c, "avp_def") and c.__module__ == groupedmod.__name__]
    for _k, c in list(classes.values()):
        pending += [d.type_class for d in c.avp_def if d.type_class]
    while pending:
        c = pending.pop()
        if c.__name__ in classes:
            if classes[c.__name__][1] is not c:
                raise RuntimeError("two classes named %s" % c.__name__)
            continue
        classes[c.__name__] = ("group", c)
        pending += [d.type_class for d in c.avp_def if d.type_class]
    tables = {}
    defaults = {}
    for name, (kind, c) in classes.items():
        try:
            inst = c()
        except Exception as e:
            raise RuntimeError("cannot instantiate %s: %r" % (name, e))
        ann = {}
        for k in reversed(c.__mro__):
            ann.update(getattr(k, "__annotations__", {}) or {})
        ann = {a: str(t) for a, t in ann.items() if not a.startswith("_") and a not in ("avp_def", "additional_avps", "header", "avps", "code", "name")}
        defs = []
        for d in c.avp_def:
            e = avpmod.get_avp_dictionary_entry(d.avp_code, d.vendor_id)
            try:
                cur = getattr(inst, d.attr_name, None)
            except Exception:
                cur = None
            defs.append({"attr": d.attr_name, "code": d.avp_code, "vendor": d.vendor_id, "req": bool(d.is_required),
                         "mand": -1 if d.is_mandatory is None else int(bool(d.is_mandatory)),
                         "cont": d.type_class.__name__ if d.type_class else "",
                         "dx": e is not None, "dg": bool(e is not None and issubclass(e["type"], AvpGrouped)),
                         "dm": bool(e and e.get("mandatory")),
                         # a list attribute: declared as list[...] by the class annotation, or holding a list on a fresh instance
                         "listdef": isinstance(cur, list), "annotated": d.attr_name in ann,
                         "listann": ann.get(d.attr_name, "").replace("typing.", "").lower().startswith("list["),
                         "list": isinstance(cur, list) or ann.get(d.attr_name, "").replace("typing.", "").lower().startswith("list[")})
        defaults[name] = {}
        for d in defs:
            cur = getattr(inst, d["attr"], None)
            if cur is not None and not (isinstance(cur, list) and not cur):
                defaults[name][d["attr"]] = cur
        declared = {d["attr"] for d in defs}
        annonly = sorted(a for a in ann if a not in declared)
        tables[name] = {"name": name, "kind": kind, "defs": defs, "annonly": annonly, "extras": kind == "msg" or hasattr(inst, "additional_avps")}
    collect.defaults = defaults
    return classes, tables


class Values:
    """python values by leaf id"""

    def __init__(self):
        self.v = [None]

    def add(self, kind, pv):
        self.v.append((kind, pv))
        return len(self.v) - 1


class CaseGen:
    def __init__(self, rng, classes, tables, entries):
        self.rng, self.classes, self.tables, self.entries = rng, classes, tables, entries
        self.vals = Values()
        self.by_key = {(e[0], e[1]): e for e in entries}
        self.plain = [e for e in entries if codec.kind_of(e[2]) != "group"]

    def leaf(self, d):
        e = self.by_key.get((d["code"], d["vendor"]))
        if e is None:
            return self.vals.add("u32", 7)          # no dictionary entry: any value; the class cannot encode it
        kind = codec.kind_of(e[2])
        if kind == "group":                        # grouped AVP without a container class: the value is a list of AVPs
            kids = [codec.build(codec.random_avp(self.rng, self.plain, max_depth=0)[0]) for _ in range(self.rng.randint(0, 2))]
            return self.vals.add("avps", kids)
        pv, _vs = codec.random_value(kind, self.rng)
        return self.vals.add(kind, pv)

    def extra(self, tn):
        keys = {(d["code"], d["vendor"]) for d in self.tables[tn]["defs"]}
        for _ in range(50):
            if self.rng.random() < 0.3:
                code, vendor = self.rng.choice([(99999990, 0), (99999991, 4242)])
                if (code, vendor) in keys:
                    continue
                pv = bytes(self.rng.getrandbits(8) for _ in range(self.rng.randint(0, 7)))
                return {"code": code, "vendor": vendor, "M": self.rng.random() < 0.5, "leaf": self.vals.add("raw", pv), "kids": []}
            e = self.rng.choice(self.plain)
            if (e[0], e[1]) in keys:
                continue
            pv, _ = codec.random_value(codec.kind_of(e[2]), self.rng)
            return {"code": e[0], "vendor": e[1], "M": bool(e[2].get("mandatory")), "leaf": self.vals.add(codec.kind_of(e[2]), pv), "kids": []}
        raise RuntimeError("no undeclared AVP found for %s" % tn)

    def obj(self, tn, attrs, depth, n_extra=0, sub_size=2):
        """attrs: list of attribute names to set -> obj"""
        t = self.tables[tn]
        firsts = {}
        for d in t["defs"]:
            firsts.setdefault(d["attr"], d)
        out = []
        for a in attrs:
            d = firsts[a]
            n = self.rng.choice([0, 1, 1, 2, 3]) if d["list"] else 1
            elems = []
            for _ in range(n):
                if d["cont"]:
                    ct = self.tables[d["cont"]]
                    names = list(dict.fromkeys(x["attr"] for x in ct["defs"] if depth < 3 or not x["cont"]))
                    self.rng.shuffle(names)
                    k = min(len(names), self.rng.randint(0 if depth else 1, sub_size))
                    o = self.obj(d["cont"], names[:k], depth + 1, n_extra=1 if self.rng.random() < 0.15 else 0, sub_size=sub_size)
                    elems.append({"leaf": 0, "set": o["set"], "extra": o["extra"]})
                else:
                    elems.append({"leaf": self.leaf(d), "set": [], "extra": []})
            out.append({"attr": a, "elems": elems})
        # values a fresh instance already carries (class defaults) are set attributes like any other
        for a, cur in collect.defaults.get(tn, {}).items():
            if a in attrs:
                continue
            d = firsts[a]
            e = self.by_key.get((d["code"], d["vendor"]))
            kind = codec.kind_of(e[2]) if e else "u32"
            vs = cur if d["list"] else [cur]
            out.append({"attr": a, "elems": [{"leaf": self.vals.add(kind, v), "set": [], "extra": []} for v in vs]})
        return {"set": out, "extra": [self.extra(tn) for _ in range(n_extra if t["extras"] else 0)]}


def instantiate(classes, tables, vals, tn, obj, clear_defaults=False):
    """build the real object: instantiate, set the attributes of obj, unset defaulted attributes not in obj"""
    kind, cls = classes[tn]
    inst = cls()
    chosen = {s["attr"] for s in obj["set"]}
    if clear_defaults:
        for d in tables[tn]["defs"]:
            if d["attr"] not in chosen:
                cur = getattr(inst, d["attr"], None)
                if cur is not None and not (isinstance(cur, list) and not cur):
                    setattr(inst, d["attr"], [] if isinstance(cur, list) else None)
    firsts = {}
    for d in tables[tn]["defs"]:
        firsts.setdefault(d["attr"], d)
    for s in obj["set"]:
        d = firsts[s["attr"]]
        pyvals = []
        for e in s["elems"]:
            if d["cont"]:
                pyvals.append(instantiate(classes, tables, vals, d["cont"], e))
            else:
                pyvals.append(vals.v[e["leaf"]][1])
        setattr(inst, s["attr"], pyvals if d["list"] else pyvals[0])
    for x in obj["extra"]:
        k, pv = vals.v[x["leaf"]]
        if avpmod.get_avp_dictionary_entry(x["code"], x["vendor"]) is None:
            a = Avp(x["code"], x["vendor"], pv, 0x40 if x["M"] else 0)
        else:
            a = Avp.new(x["code"], x["vendor"], value=pv)
        if kind == "msg":
            inst.append_avp(a)
        else:
            inst.additional_avps.append(a)
    return inst


def leaf_equal(vals, leaf_id, avp_or_value, is_avp):
    kind, pv = vals.v[leaf_id]
    if kind == "avps":
        got = avp_or_value.value if is_avp else avp_or_value
        return isinstance(got, list) and [a.as_bytes() for a in got] == [a.as_bytes() for a in pv]
    if kind == "raw":
        got = avp_or_value.payload if is_avp else avp_or_value
        return got == pv
    got = avp_or_value.value if is_avp else avp_or_value
    return codec.values_equal(kind, got, pv)


def tree_diff(vals, avps, nodes, path=""):
    """decoded AVP list vs expected node list -> problems"""
    if len(avps) != len(nodes):
        return ["%s: %d AVPs on the wire, %d expected (%s vs %s)" % (path or "/", len(avps), len(nodes),
                [(a.code, a.vendor_id) for a in avps][:12], [(n["code"], n["vendor"]) for n in nodes][:12])]
    out = []
    for i, (a, n) in enumerate(zip(avps, nodes)):
        p = "%s/%d" % (path, i)
        flags = (0x80 if n["vendor"] else 0) | (0x40 if n["M"] else 0)
        if a.code != n["code"] or a.vendor_id != n["vendor"]:
            out.append("%s: AVP %s/%s where %s/%s is expected" % (p, a.code, a.vendor_id, n["code"], n["vendor"]))
            continue
        if a.flags != flags:
            out.append("%s: AVP %s/%s flags %#x, expected %#x" % (p, a.code, a.vendor_id, a.flags, flags))
        if n["leaf"]:
            try:
                if not leaf_equal(vals, n["leaf"], a, True):
                    out.append("%s: AVP %s/%s value %r, set %r" % (p, a.code, a.vendor_id, str(a.value)[:60], str(vals.v[n["leaf"]][1])[:60]))
            except Exception as e:
                out.append("%s: AVP %s/%s value unreadable: %r" % (p, a.code, a.vendor_id, e))
        else:
            if not isinstance(a, AvpGrouped):
                out.append("%s: AVP %s/%s is not grouped" % (p, a.code, a.vendor_id))
            else:
                out += tree_diff(vals, a.value, n["kids"], p)
    return out


def attrs_diff(classes, tables, vals, tn, inst, canon, path=""):
    """decoded typed object vs canonical attribute assignment -> problems"""
    out = []
    want = {s["attr"]: s for s in canon["set"]}
    firsts = {}
    for d in tables[tn]["defs"]:
        firsts.setdefault(d["attr"], d)
    for a, d in firsts.items():
        try:
            got = getattr(inst, a, None)
        except Exception as e:
            out.append("%s.%s unreadable: %r" % (path or tn, a, e))
            continue
        s = want.get(a)
        if s is None:
            if not (got is None or (isinstance(got, list) and not got)):
                out.append("%s.%s = %r although it was not set" % (path or tn, a, str(got)[:60]))
            continue
        if d["list"]:
            if not isinstance(got, list) or len(got) != len(s["elems"]):
                out.append("%s.%s has %s elements, %d were set" % (path or tn, a, len(got) if isinstance(got, list) else type(got).__name__, len(s["elems"])))
                continue
            pairs = list(zip(got, s["elems"]))
        else:
            if isinstance(got, list) and not d["dg"]:
                out.append("%s.%s decoded as a list" % (path or tn, a))
                continue
            pairs = [(got, s["elems"][-1])]
        for j, (g, e) in enumerate(pairs):
            if d["cont"]:
                if type(g) is not classes[d["cont"]][1]:
                    out.append("%s.%s[%d] is %s, expected %s" % (path or tn, a, j, type(g).__name__, d["cont"]))
                else:
                    out += attrs_diff(classes, tables, vals, d["cont"], g, e, "%s.%s[%d]" % (path or tn, a, j))
            else:
                try:
                    if not leaf_equal(vals, e["leaf"], g, False):
                        out.append("%s.%s[%d] = %r, set %r" % (path or tn, a, j, str(g)[:60], str(vals.v[e["leaf"]][1])[:60]))
                except Exception as ex:
                    out.append("%s.%s[%d] compare failed: %r" % (path or tn, a, j, ex))
    extra = getattr(inst, "_additional_avps", None) if classes[tn][0] == "msg" else getattr(inst, "additional_avps", None)
    exp = canon["extra"]
    if not tables[tn]["extras"]:
        return out
    if extra is None or len(extra) != len(exp):
        out.append("%s: %s undeclared AVPs kept, %d expected" % (path or tn, None if extra is None else len(extra), len(exp)))
    else:
        out += tree_diff(vals, extra, exp, (path or tn) + "#extra")
    return out


def evaluate(tables_path, cases, tag):
    outs = []
    B = 1500
    for off in range(0, len(cases), B):
        outs += tlc.evaluate("AttrEval", cases[off:off + B], "%s_%d" % (tag, off), timeout=3000, extra_env={"TABLES": tables_path})
    return outs


def run(tier, seed):
    ck = Check("C03", tier, seed, "exploration")
    logging.disable(logging.CRITICAL)
    ck.assumptions += ["the attribute tables (avp_def) are read from the classes of the code under test; 'list attribute' = a fresh instance holds a list",
                       "AVP value codec itself is C01's subject; values are compared through it (addresses as (family, text))",
                       "a Grouped dictionary AVP declared without a container class takes a list of AVPs as its value",
                       "undeclared AVPs are only placed in classes that can hold them (every command; containers with an additional_avps field: 136 of 254)"]
    rng = random.Random(seed)
    thorough = tier == "thorough"
    classes, tables = collect()
    os.makedirs(OUT, exist_ok=True)
    # binding self-test: a synthetic table with one defect of every kind must be flagged by the evaluator
    okd = next(d for d in tables["CreditControlRequest"]["defs"] if not d["cont"] and d["dx"])
    tables["ZzCanary"] = {"name": "ZzCanary", "kind": "group", "extras": False, "defs": [
        dict(okd, attr="a"), dict(okd, attr="b"), dict(okd, attr="a", code=okd["code"] + 1),
        dict(okd, attr="c", code=7, dx=False), dict(okd, attr="d", code=8, cont="OcOlr", dg=False), dict(okd, attr="e", code=9, cont="NoSuchClass", dg=True),
        dict(okd, attr="f", code=10, annotated=True, listann=True, listdef=False, list=True), dict(okd, attr="g", code=11, annotated=True, listann=False, listdef=True, list=True)],
        "annonly": ["h"]}
    tpath = os.path.join(OUT, "c03_tables.json")
    with open(tpath, "w") as f:
        json.dump(tables, f)
    names = sorted(tables)
    n_defs = sum(len(t["defs"]) for t in tables.values())
    # ---- 1. well-formedness of every table (exhaustive) -------------------------------------------------
    wf = evaluate(tpath, [{"op": "wellformed", "cls": n} for n in names], "c03_wf")
    n_viol = 0
    canary = {v["k"] for n, o in zip(names, wf) if n == "ZzCanary" for v in o["viol"]}
    if canary != {"no_dictionary_entry", "container_but_not_grouped", "container_unknown", "two_attributes_same_avp", "attribute_declared_twice",
                  "list_attribute_not_initialised_as_list", "list_default_for_attribute_not_annotated_as_list", "annotated_attribute_without_definition"}:
        raise tlc.TlcError("binding self-test failed: AttrMap!Viol on the defective canary table gave %r" % sorted(canary))
    wf = [o for n, o in zip(names, wf) if n != "ZzCanary"]
    names = [n for n in names if n != "ZzCanary"]
    for n, o in zip(names, wf):
        for v in o["viol"]:
            n_viol += 1
            ck.violation("table:%s:%s.%s" % (v["k"], n, v["attr"]), "%s: attribute %s: %s %s" % (n, v["attr"], v["k"].replace("_", " "), v["other"]), {"class": n, "attr": v["attr"], "kind": v["k"]})
    # ---- 2. generated cases -----------------------------------------------------------------------------
    entries = codec.dictionary()
    cg = CaseGen(rng, classes, tables, entries)
    cases = []
    for n in names:
        t = tables[n]
        attrs = list(dict.fromkeys(d["attr"] for d in t["defs"]))
        # a Grouped dictionary AVP declared without a container class: exercised by its own single-attribute case
        # only (one signature per attribute), left out of subsets so that the other attributes are judged on their own
        bare = [d["attr"] for d in t["defs"] if d["dg"] and not d["cont"]]
        cases.append({"cls": n, "tag": "none", "obj": cg.obj(n, [], 0)})
        cases.append({"cls": n, "tag": "none+extra", "obj": cg.obj(n, [], 0, n_extra=2)})
        for a in attrs:                                             # each single attribute
            for _ in range(5 if thorough else 1):
                cases.append({"cls": n, "tag": "single", "obj": cg.obj(n, [a], 0, n_extra=rng.choice([0, 0, 1]))})
        for _ in range(60 if thorough else 3):                       # random subsets
            k = rng.randint(2, max(2, len(attrs)))
            sub = [a for a in rng.sample(attrs, min(k, len(attrs))) if a not in bare]
            cases.append({"cls": n, "tag": "subset", "obj": cg.obj(n, sub, 0, n_extra=rng.choice([0, 1, 3]))})
        for _ in range(8 if thorough else 1):                        # all attributes
            cases.append({"cls": n, "tag": "all", "obj": cg.obj(n, [a for a in attrs if a not in bare], 0, n_extra=1, sub_size=3 if thorough else 2)})
    outs = evaluate(tpath, [{"op": "gen", "cls": c["cls"], "obj": c["obj"]} for c in cases], "c03_gen")
    bad_tables = {n for n, o in zip(names, wf) if o["viol"]}
    n_rt_model = 0
    for c, o in zip(cases, outs):
        tn = c["cls"]
        kind, cls = classes[tn]
        rp = {"class": tn, "tag": c["tag"], "attrs": [s["attr"] for s in c["obj"]["set"]]}
        ctx = "%s:%s" % (tn, "+".join(rp["attrs"][:1]) if c["tag"] == "single" else c["tag"])
        if c["tag"] == "single" and rp["attrs"] and rp["attrs"][0] in {d["attr"] for d in tables[tn]["defs"] if d["dg"] and not d["cont"]}:
            ctx = "%s.%s:grouped_avp_without_container_class" % (tn, rp["attrs"][0])
            bare_sig = "grouped_avp_without_container_class:%s.%s" % (tn, rp["attrs"][0])
        else:
            bare_sig = None
        if not o["rt"]:
            # the design's own inverse law fails only on a table that is not well-formed (reported above)
            if tn not in bad_tables and not _uses_bad(tables, bad_tables, tn):
                raise tlc.TlcError("AttrMap!RoundTrip fails on a well-formed table %s: %s" % (tn, json.dumps(c["obj"])[:400]))
        else:
            n_rt_model += 1
        try:
            inst = instantiate(classes, tables, cg.vals, tn, c["obj"])
            if kind == "msg":
                raw = inst.as_bytes()
                wire = Message.from_bytes(raw, plain_msg=True)._avps
            else:
                avps = generate_avps_from_defs(inst)
                holder = Avp.new(260)                  # any grouped AVP as a carrier for the container's AVPs
                holder.value = avps
                raw = holder.as_bytes()
                wire = Avp.from_bytes(raw).value
        except Exception as e:
            ck.violation(bare_sig or "encode_raised:%s:%s" % (ctx, type(e).__name__), "%s with attributes %s set to valid values cannot be encoded: %r" % (tn, rp["attrs"][:8], e), rp)
            continue
        probs = tree_diff(cg.vals, wire, o["tree"])
        if probs:
            ck.violation(bare_sig or "encoded_avps_differ:%s" % ctx, "%s with %s set: %s" % (tn, rp["attrs"][:8], probs[:3]), rp)
            continue
        # typed decode restores the attributes; encode-decode-encode
        try:
            if kind == "msg":
                dec = Message.from_bytes(raw)
                if type(dec) is not cls:
                    ck.violation("decoded_class:%s" % tn, "bytes of %s decode as %s" % (tn, type(dec).__name__), rp)
                    continue
                again = dec.as_bytes()
            else:
                dec = cls()
                assign_attr_from_defs(dec, Avp.from_bytes(raw).value)
                h2 = Avp.new(260)
                h2.value = generate_avps_from_defs(dec)
                again = h2.as_bytes()
        except Exception as e:
            ck.violation(bare_sig or "decode_raised:%s:%s" % (ctx, type(e).__name__), "bytes produced by %s cannot be decoded / re-encoded: %r" % (tn, e), rp)
            continue
        probs = attrs_diff(classes, tables, cg.vals, tn, dec, o["canon"])
        if probs:
            ck.violation(bare_sig or "decoded_attributes_differ:%s" % ctx, "%s: %s" % (tn, probs[:3]), rp)
        if again != raw:
            ck.violation(bare_sig or "reencode_differs:%s" % ctx, "%s: encode(decode(encode(x))) differs from encode(x) (%d vs %d octets)" % (tn, len(again), len(raw)), rp)
    # fresh instances: class defaults are attribute values like any other
    n_fresh = 0
    for n in names:
        kind, cls = classes[n]
        if kind != "msg":
            continue
        n_fresh += 1
        inst = cls()
        try:
            raw = inst.as_bytes()
            dec = Message.from_bytes(raw)
            firsts = list(dict.fromkeys(d["attr"] for d in tables[n]["defs"]))
            a = {x: getattr(inst, x, None) for x in firsts}
            b = {x: getattr(dec, x, None) for x in firsts}
            if {k: v for k, v in a.items() if v not in (None, [])} != {k: v for k, v in b.items() if v not in (None, [])} or dec.as_bytes() != raw:
                ck.violation("fresh_instance_round_trip:%s" % n, "a fresh %s does not survive encode/decode: %r vs %r" % (n, a, b), {"class": n})
        except Exception as e:
            ck.violation("fresh_instance_raised:%s" % n, "fresh %s: %r" % (n, e), {"class": n})
    # ---- 3. untyped commands expose every AVP by name -----------------------------------------------------
    ex_cases, ex_meta = [], []
    grp = [e for e in entries if codec.kind_of(e[2]) == "group"]
    reserved = set(dir(UndefinedMessage()))

    def norm(name):
        return name.replace("-", "_").lower()

    def ex_tree(depth, top):
        nodes, avps = [], []
        pool_n = rng.randint(1, 5)
        pool = [rng.choice(cg.plain) for _ in range(pool_n)] + ([rng.choice(grp)] if depth < 3 and rng.random() < 0.6 else [])
        for _ in range(rng.randint(0, 7)):
            e = rng.choice(pool)
            name = e[2]["name"]
            if top and norm(name) in reserved:
                continue
            if codec.kind_of(e[2]) == "group":
                kn, ka = ex_tree(depth + 1, False)
                a = Avp.new(e[0], e[1], value=ka)
                nodes.append({"name": list(name.encode()), "g": True, "leaf": 0, "kids": kn})
            else:
                pv, _ = codec.random_value(codec.kind_of(e[2]), rng)
                a = Avp.new(e[0], e[1], value=pv)
                nodes.append({"name": list(name.encode()), "g": False, "leaf": cg.vals.add(codec.kind_of(e[2]), pv), "kids": []})
            avps.append(a)
        if rng.random() < 0.2:
            pv = bytes(rng.getrandbits(8) for _ in range(3))
            avps.append(Avp(99999990, 0, pv, 0))
            nodes.append({"name": list(b"Unknown"), "g": False, "leaf": cg.vals.add("raw", pv), "kids": []})
        return nodes, avps
    for i in range(20000 if thorough else 400):
        nodes, avps = ex_tree(0, True)
        m = Message()
        m.header.command_code = 8388100 + (i % 7)
        m.header.is_request = bool(i % 2)
        m.avps = avps
        ex_cases.append({"op": "expose", "tree": nodes})
        ex_meta.append(m.as_bytes())
    ex_out = evaluate(tpath, ex_cases, "c03_expose")

    def expose_diff(obj, attrs, path):
        out = []
        have = {k for k in vars(obj) if not k.startswith("_")} - {"header"}
        want = {bytes(a["name"]).decode() for a in attrs}
        if have != want:
            out.append("%s: attributes %s, expected %s" % (path, sorted(have ^ want)[:6], "(symmetric difference)"))
            return out
        for a in attrs:
            nm = bytes(a["name"]).decode()
            got = getattr(obj, nm)
            if a["multi"] != isinstance(got, list) and not (not a["multi"] and isinstance(got, list) and cg.vals.v[a["vals"][0]["leaf"]][0] == "avps"):
                out.append("%s.%s: %s" % (path, nm, "a list is expected" if a["multi"] else "a single value is expected"))
                continue
            gl = got if a["multi"] else [got]
            if len(gl) != len(a["vals"]):
                out.append("%s.%s: %d values, %d on the wire" % (path, nm, len(gl), len(a["vals"])))
                continue
            for j, (g, v) in enumerate(zip(gl, a["vals"])):
                if v["leaf"]:
                    if not leaf_equal(cg.vals, v["leaf"], g, False):
                        out.append("%s.%s[%d] = %r, wire order expects %r" % (path, nm, j, str(g)[:40], str(cg.vals.v[v["leaf"]][1])[:40]))
                elif not isinstance(g, UndefinedGroupedAvp):
                    out.append("%s.%s[%d] is %s, expected a nested object" % (path, nm, j, type(g).__name__))
                else:
                    out += expose_diff(g, v["obj"], "%s.%s[%d]" % (path, nm, j))
        return out
    for raw, c, o in zip(ex_meta, ex_cases, ex_out):
        rp = {"hex": raw.hex()[:2000]}
        try:
            m = Message.from_bytes(raw)
        except Exception as e:
            ck.violation("untyped_decode_raised:%s" % type(e).__name__, "untyped command: %r" % e, rp)
            continue
        if not isinstance(m, UndefinedMessage):
            ck.violation("untyped_class", "unknown command decoded as %s" % type(m).__name__, rp)
            continue
        probs = expose_diff(m, o["attrs"], "msg")
        if probs:
            ck.violation("untyped_attributes_differ", "%s" % probs[:3], rp)
    ck.cov["evaluations"] = len(names) + len(cases) + n_fresh + len(ex_cases)
    ck.cov["distinct_nontrivial"] = len({json.dumps(c["obj"], sort_keys=True) + c["cls"] for c in cases if c["obj"]["set"]}) + len({json.dumps(c["tree"]) for c in ex_cases if c["tree"]})
    ck.cov["rule"] = "one evaluation = one table checked for well-formedness, or one (class, attribute assignment) encoded, decoded generically and typed, re-encoded; or one untyped message exposed; non-trivial = at least one attribute / AVP"
    ck.cov.update(classes=len(names), message_classes=sum(1 for k, _ in classes.values() if k == "msg"), container_classes=sum(1 for k, _ in classes.values() if k == "group"),
                  attribute_definitions=n_defs, tables_exhaustive=True, table_violations=n_viol, cases_by_kind={k: sum(1 for c in cases if c["tag"] == k) for k in ("none", "none+extra", "single", "subset", "all")},
                  model_round_trip_law_held=n_rt_model, untyped_messages=len(ex_cases))
    ck.sample({"class": cases[5]["cls"], "obj": json.dumps(cases[5]["obj"])[:300], "expected_tree": json.dumps(outs[5]["tree"])[:300]})
    return ck.finish()


def _uses_bad(tables, bad, tn, seen=None):
    seen = seen or set()
    if tn in seen:
        return False
    seen.add(tn)
    for d in tables[tn]["defs"]:
        if d["cont"] and (d["cont"] in bad or _uses_bad(tables, bad, d["cont"], seen)):
            return True
    return False


def replay(path, seed):
    body = json.load(open(path))
    return run("quick", body.get("seed", seed))
