PROFILE = {"weights": [2, 3, 1, 1, 4, 1, 2, 1, 0, 0], "act": {"tick": 12, "connect": 1, "feed": 8, "connect_result": 8, "plan": 3, "peer_close": 2, "peer_reset": 2}}
ASSUME = ["reconnect checks happen at least every wakeup seconds: a due dial is judged with wakeup+1 s of slack"]


def plans(tier):
    th = tier == "thorough"
    mc = [dict(cfg="B", depth=7 if th else 6, maxtime=6 if th else 5, alpha=["cea", "dpr"], pairs=False, faults=True, maxconn=3),
          dict(cfg="D", depth=7 if th else 6, maxtime=7 if th else 6, alpha=["cea", "dpr"], pairs=False, faults=True, maxconn=3)]
    if th:
        mc.append(dict(cfg="C", depth=6, maxtime=5, alpha=["cer", "cea", "dpr"], pairs=False, faults=True, maxconn=3, timeout=2400))
    sim = [dict(cfg="B", depth=16, maxtime=12, alpha=["cea", "dpr", "dwa", "req"], num=400 if th else 60, maxconn=6),
           dict(cfg="D", depth=16, maxtime=14, alpha=["cea", "dpr", "dwa"], num=400 if th else 60, maxconn=6)]
    return mc, sim

def enum_plans(tier):
    th = tier == "thorough"
    # every history over {tick, connect result ok/fail, CEA, DPR, remote close}: reconnect timing at every offset
    return [dict(cfg="B", depth=7 if th else 5, maxtime=7 if th else 5, alpha=["ceaok", "dpr"], faults=True, maxconn=3),
            dict(cfg="D", depth=7 if th else 5, maxtime=7 if th else 5, alpha=["ceaok", "dpr"], faults=True, maxconn=3),
            # a DPR while a watchdog request is outstanding, and a late DWA after the DPA
            dict(cfg="B", depth=8 if th else 7, maxtime=5 if th else 4, alpha=["ceaok", "dpr", "dwa"], faults=False, maxconn=1),
            # simultaneous open: the peer the node is dialling connects in and completes its exchange first; the node's own
            # connection is then answered (accepted or rejected) or fails: "unless it already has a connection"
            dict(cfg="B", depth=7 if th else 6, maxtime=4 if th else 3, alpha=["cerok", "cea"], faults=False, maxconn=3)]
