"""C13 — peer/connection tables and application readiness stay consistent (Mon_C13.tla)"""
from . import nodecommon as nc
from .c13_plan import PROFILE, plans, ASSUME, enum_plans


def run(tier, seed):
    mc, sim = plans(tier)
    # vacuity guard: with the pre-fix behaviour pinned (an application registered on a running node is not flagged ready although
    # its peer is) the model violates the monitor
    from .. import tlc
    g = nc.mc_run("c13_vac_F13b", "LATE", 4, 1, ["cerok", "addapp"], False, False, 1, ["Inv13"], pinned=["F13b"], timeout=900)
    if "Inv13" not in g["violated"]:
        raise tlc.TlcError("vacuity guard failed: Node.tla with F13b pinned satisfies Inv13")
    ck = nc.run_property("C13", tier, seed, "Inv13", PROFILE, mc, sim, 1500 if tier == "thorough" else 240, ASSUME, enum_plan=enum_plans(tier))
    # the free grain: the tables agree with each other after every single thread step, under every interleaving
    th = tier == "thorough"
    nc.free_phase(ck, "C13", [
        dict(cfg="A", depth=10 if th else 8, maxtime=2, alpha=["cerok", "req1"], faults=True, maxconn=1, invs=["TablesConsistent"],
             sim=300 if th else 60, sim_depth=20, sim_alpha=["cerok", "req1", "dwr", "dpr"], sim_maxconn=3),
        dict(cfg="B", depth=9 if th else 8, maxtime=3, alpha=["ceaok"], faults=True, maxconn=2, invs=["TablesConsistent"],
             sim=300 if th else 60, sim_depth=20, sim_alpha=["ceaok", "dwr", "dpa"], sim_maxconn=3)], seed)
    return ck.finish()


def replay(path, seed):
    return nc.replay_file("C13", path)
