"""C13 — peer/connection tables and application readiness stay consistent (Mon_C13.tla)"""
from . import nodecommon as nc
from .c13_plan import PROFILE, plans, ASSUME, enum_plans


def run(tier, seed):
    mc, sim = plans(tier)
    ck = nc.run_property("C13", tier, seed, "Inv13", PROFILE, mc, sim, 1500 if tier == "thorough" else 240, ASSUME, enum_plan=enum_plans(tier))
    return ck.finish()


def replay(path, seed):
    return nc.replay_file("C13", path)
