"""C20 — answers built from requests mirror the header and use the paired answer class.

Model : Wire!ToAnswerHdr (R, E, T cleared, P kept, everything else copied), evaluated by TLC for every case
        (all 256 flag octets x boundary identifiers).
Code  : Message.to_answer(), Node._generate_answer() and Application.generate_answer() for every registered
        command class (typed request classes, typed base classes, untyped commands, unknown codes).
"""
from __future__ import annotations

import json
import random

from .. import codec, tlc, simrt
from ..common import Check
from ..load import load
from diameter.message import Message, MessageHeader, UndefinedMessage, DefinedMessage, Avp, constants as K
from diameter.message.commands import all_commands
from .c02 import hdr_spec


def classes():
    """-> list of (kind, class, expected answer classes)"""
    out = []
    for code, base in sorted(all_commands.items()):
        subs = {s.__name__: s for s in base.__subclasses__()}
        req = subs.get(base.__name__ + "Request")
        ans = subs.get(base.__name__ + "Answer")
        if req is not None:
            pair = [("typed_request", req, (ans,) if ans else (Message, base)),
                    ("typed_base", base, (ans, base) if ans else (base, Message))]      # the base class is the command's generic class
            # both orders occur (per command): an answer must not depend on which kind of request was answered before
            out += pair if code % 2 else pair[::-1]
        elif issubclass(base, DefinedMessage):
            out.append(("typed_base", base, (base, Message)))
        else:
            out.append(("untyped", base, (base, Message, UndefinedMessage)))
    out.append(("unknown", UndefinedMessage, (UndefinedMessage, Message)))
    return out


def run(tier, seed):
    ck = Check("C20", tier, seed, "exploration")
    ck.assumptions += ["for a typed base class (the command's generic class) the answer may be the paired answer class or the base class itself",
                       "the reference Wire!ToAnswerHdr is written from RFC 6733 section 6.2 and is itself trusted"]
    rng = random.Random(seed)
    b32 = [0, 1, 0x7FFFFFFF, 0x80000000, 0xFFFFFFFF]
    cls = classes()
    cases = []
    for kind, c, want in cls:
        flag_set = range(256) if (tier == "thorough" or kind != "untyped" or rng.random() < 0.15) else [0x80, 0xC0, 0xF0, 0x90, 0xA0, 0x00, 0xFF]
        if tier != "thorough" and kind in ("typed_request", "typed_base"):
            flag_set = [0x80, 0xC0, 0xF0, 0x90, 0xA0, 0x00, 0xFF, 0x40, 0xD0, 0xE0] + [rng.randrange(256) for _ in range(6)]
        for f in flag_set:
            code = getattr(c, "code", 0) or 9999991
            cases.append({"kind": kind, "cls": c, "want": want, "hdr": hdr_spec(rng.choice([1, 0, 255]), f, code, rng.choice(b32), rng.choice(b32), rng.choice(b32))})
    outs = []
    specs = [{"op": "answer", "hdr": c["hdr"]} for c in cases]
    for off in range(0, len(specs), 5000):
        outs += tlc.evaluate("WireEval", specs[off:off + 5000], "c20_eval_%d" % off, timeout=3000)
    for c, o in zip(cases, outs):
        h = c["hdr"]
        code = (h["code"][0] << 16) | h["code"][1]
        eh = o["hdr"]
        want = {"version": eh["version"], "command_flags": eh["flags"], "command_code": code,
                "application_id": (eh["app"][0] << 16) | eh["app"][1], "hop_by_hop_identifier": (eh["hbh"][0] << 16) | eh["hbh"][1],
                "end_to_end_identifier": (eh["e2e"][0] << 16) | eh["e2e"][1]}
        hdr = MessageHeader(h["version"], 0, h["flags"], code, want["application_id"], want["hop_by_hop_identifier"], want["end_to_end_identifier"])
        rp = {"class": c["cls"].__name__, "kind": c["kind"], "hdr": h}
        try:
            req = c["cls"](hdr)
            req.header.command_flags = h["flags"]          # (constructors apply class defaults; the request under test has these flags)
            req.header.command_code = code
            before = (req.header.version, req.header.command_flags, req.header.command_code, req.header.application_id,
                      req.header.hop_by_hop_identifier, req.header.end_to_end_identifier, req.as_bytes() if not (c["kind"] == "untyped" or c["kind"] == "unknown") or True else b"")
            ans = req.to_answer()
        except Exception as e:
            ck.violation("to_answer_raised:%s" % type(e).__name__, "%s.to_answer() raised %r" % (c["cls"].__name__, e), rp)
            continue
        if type(ans) not in c["want"]:
            ck.violation("answer_class:%s" % c["kind"], "%s.to_answer() returned %s, expected %s" % (c["cls"].__name__, type(ans).__name__, [w.__name__ for w in c["want"] if w]), rp)
        got = {k: getattr(ans.header, k) for k in want}
        if got != want:
            bad = {k: (got[k], want[k]) for k in want if got[k] != want[k]}
            ctx = "+".join(sorted(bad))
            if set(bad) == {"command_flags"}:
                x = got["command_flags"] ^ want["command_flags"]
                ctx = "command_flags:" + "".join(n for b, n in ((0x80, "R"), (0x40, "P"), (0x20, "E"), (0x10, "T")) if x & b) + ("r" if x & 0x0F else "")
            ck.violation("answer_header:%s:%s" % (c["kind"], ctx), "%s.to_answer() with request flags %#x: header fields (answer, expected) %r" % (c["cls"].__name__, h["flags"], bad), rp)
        after = (req.header.version, req.header.command_flags, req.header.command_code, req.header.application_id,
                 req.header.hop_by_hop_identifier, req.header.end_to_end_identifier, req.as_bytes())
        if after != before:
            ck.violation("request_modified", "%s.to_answer() modified the request" % c["cls"].__name__, rp)
    # ---- answers generated through a node / an application ---------------------------------------------
    ns = load()
    s = simrt.Scheduler()
    simrt.install(s)
    n_gen = 0
    try:
        node = ns.node.Node("node.verif.example", "verif.example")
        app = ns.application.Application(4, is_auth_application=True)
        app._node = node
        typed_reqs = [c for k, c, w in cls if k == "typed_request"]
        for c in typed_reqs:
            for with_sid, with_pi in ((True, True), (True, False), (False, False)):
                req = c()
                req.header.hop_by_hop_identifier = 77
                req.header.end_to_end_identifier = 88
                has_sid = any(d.attr_name == "session_id" for d in c.avp_def)
                has_pi = any(d.attr_name == "proxy_info" for d in c.avp_def)
                if has_sid and with_sid:
                    req.session_id = "verif;1;2"
                pi = None
                if has_pi and with_pi:
                    from diameter.message.avp.grouped import ProxyInfo
                    pi = ProxyInfo(proxy_host=b"proxy.example", proxy_state=b"\x01\x02")
                    req.proxy_info = [pi]
                for who, gen in (("node", lambda r: node._generate_answer(None, r)), ("application", lambda r: app.generate_answer(r))):
                    n_gen += 1
                    rp = {"class": c.__name__, "via": who, "session": with_sid, "proxy_info": with_pi}
                    try:
                        a = gen(req)
                        raw = a.as_bytes()
                        d = Message.from_bytes(raw, plain_msg=True)
                    except Exception as e:
                        ck.violation("generate_answer_raised:%s" % type(e).__name__, "%s answer for %s raised %r" % (who, c.__name__, e), rp)
                        continue
                    def first(code):
                        xs = d.find_avps((code, 0))
                        return xs[0].value if xs else None
                    probs = []
                    if first(K.AVP_ORIGIN_HOST) != b"node.verif.example":
                        probs.append("Origin-Host %r" % first(K.AVP_ORIGIN_HOST))
                    if first(K.AVP_ORIGIN_REALM) != b"verif.example":
                        probs.append("Origin-Realm %r" % first(K.AVP_ORIGIN_REALM))
                    if has_sid and with_sid and first(K.AVP_SESSION_ID) != "verif;1;2":
                        probs.append("Session-Id %r" % first(K.AVP_SESSION_ID))
                    if pi is not None:
                        got_pi = d.find_avps((K.AVP_PROXY_INFO, 0))
                        if len(got_pi) != 1 or got_pi[0].as_bytes() != Message.from_bytes(req.as_bytes(), plain_msg=True).find_avps((K.AVP_PROXY_INFO, 0))[0].as_bytes():
                            probs.append("Proxy-Info not copied")
                    if d.header.hop_by_hop_identifier != 77 or d.header.end_to_end_identifier != 88 or d.header.is_request:
                        probs.append("header ids / R bit")
                    if probs:
                        ck.violation("generated_answer:%s" % who, "%s answer for %s: %s" % (who, c.__name__, probs), rp)
    finally:
        s.teardown()
        simrt.install(None)
    n_node = node_level(ck, tier, seed)
    ck.cov["evaluations"] = len(cases) + n_gen + n_node
    ck.cov["distinct_nontrivial"] = len({(c["cls"].__name__, c["hdr"]["flags"], json.dumps(c["hdr"], sort_keys=True)) for c in cases})
    ck.cov["rule"] = "one evaluation = to_answer() of one command class for one header (flag octet, identifiers), or one answer generated by a node/application; distinct by (class, header)"
    ck.cov["classes"] = len(cls)
    ck.cov["flag_octets_per_request_class"] = 256 if tier == "thorough" else 16
    ck.sample({"class": cases[0]["cls"].__name__, "hdr": cases[0]["hdr"], "expected_answer_hdr": outs[0]["hdr"]})
    return ck.finish()


# ---------------------------------------------------------------------- answers on the wire, whichever code path built them
TB_CFG_NAME = "TB"


def cfg20(rng):
    """fault / traffic histories over threading and basic applications; 'slow7' holds a thread slot for longer than the 5 s
    a request waits for one, so that the application's own DIAMETER_TOO_BUSY answer is reached"""
    from ..world import peer_cfg, app_cfg
    kind = rng.choice(["threading", "threading", "basic"])
    handler = rng.choice(["answer", "raise", "slow", "slow7", "slow7", "alt"] if kind == "threading" else ["answer", "hold", "raise", "alt"])
    node = {"idle": 30, "dwa": 2, "cer": 3, "cea": 3, "wakeup": rng.choice([1, 2]), "retx": 4, "validate": rng.random() < 0.8}
    peers = [peer_cfg("p1"), peer_cfg("p2")]
    apps = [app_cfg("a1", 4, peers=["p1", "p2"], kind=kind, max_threads=rng.choice([1, 1, 2]), handler=handler)]
    return {"node": node, "peers": peers, "apps": apps}


def _job20(arg):
    from . import c14
    return c14._fault_job(arg, cfg_fn=cfg20, tag="fault20")


def node_level(ck, tier, seed):
    """Mon_C20 folded over histories of the real node: every answer to a typed application request seen on the wire -
    the node's own error answers, duplicate rejections, applications' answers, a threading application's TOO_BUSY -
    carries the local origin and the request's Session-Id and Proxy-Info.  The histories are validated against Node.tla."""
    from . import nodecommon as nc
    from .c08_plan import PROFILE as P08
    from .. import nodetrace as nt
    from ..common import fan_out
    from ..world import peer_cfg, app_cfg
    th = tier == "thorough"
    nc.CFGS[TB_CFG_NAME] = {"node": dict(nc.NODE_A, idle=30), "peers": [peer_cfg("p1")],
                            "apps": [app_cfg("a1", 4, peers=["p1"], kind="threading", max_threads=1, handler="slow7")]}
    M = nt.M
    req = lambda h, e, **k: M("APP", True, h, e, **dict(dict(app=4, oh="p1.r1", realm="r1"), **k))
    fixed = []
    # one slot, held for 7 s: the second request waits 5 s for it and is answered TOO_BUSY by the application itself;
    # then an unserved realm, a missing AVP, an unknown application, a retransmission of an answered request
    for tail in ([req(1, 2)] , [req(1, 2), req(2, 3, realm="r9")], [req(1, 2), req(2, 4, miss=True), req(2, 5, app=9)]):
        acts = [{"a": "start"}, {"a": "connect"}, {"a": "feed", "c": 1, "ms": [M("CE", True, 7, 77, oh="p1.r1", auth=[4])]},
                {"a": "feed", "c": 1, "ms": [req(1, 1)]}] + [{"a": "feed", "c": 1, "ms": [m]} for m in tail] + [{"a": "tick"}] * 9 + \
               [{"a": "feed", "c": 1, "ms": [req(1, 1, T=True)]}, {"a": "tick"}]
        h = nt.replay_acts(nc.CFGS[TB_CFG_NAME], acts)
        h["cfg"] = {"mc": TB_CFG_NAME}
        fixed.append(h)
    busy = sum(1 for h in fixed for st in h["steps"] for e in st["out"] if e["ev"] == "tx" and e["m"]["rc"] == 3004)
    if not busy:
        raise tlc.TlcError("vacuity: the TOO_BUSY scenario did not produce a 3004 answer")
    hs = fan_out(_job20, [(seed * 6151 + i, 14 + (i % 3) * 6) for i in range(600 if th else 96)])
    rh = nc.random_histories(600 if th else 96, seed + 5, P08)
    allh = fixed + hs + rh
    nv, ncf = nc.judge(ck, "C20", allh, "c20_n", conf=True)
    ck.cov["node_histories"] = len(allh)
    ck.cov["node_histories_conforming"] = ncf
    ck.cov["answers_on_the_wire_judged"] = sum(1 for h in allh for st in h["steps"] for e in st["out"]
                                               if e["ev"] == "tx" and not e["m"]["req"] and e["m"]["code"] == 272)
    ck.cov["too_busy_answers"] = sum(1 for h in allh for st in h["steps"] for e in st["out"] if e["ev"] == "tx" and e["m"]["rc"] == 3004)
    return len(allh)


def replay(path, seed):
    body = json.load(open(path))
    rp = body.get("replay") or {}
    cfg = rp.get("cfg") if isinstance(rp, dict) else None
    if cfg:
        from . import nodecommon as nc
        from .. import nodetrace as nt
        if "fault20" in cfg:
            h = _job20((cfg["fault20"]["seed"], cfg["fault20"]["length"]))
            v = nt.mon_batch(h["params"], [h["steps"]], "c20_replay")[0].get("C20", [])
            print("replayed %d steps; C20 violations: %s" % (len(h["steps"]), v))
            if any(x["sig"] == body["sig"] for x in v):
                print("VIOLATION property=C20 replay=%s" % path)
                return 1
            return 0
        if cfg.get("mc") == TB_CFG_NAME:
            from ..world import peer_cfg, app_cfg
            nc.CFGS[TB_CFG_NAME] = {"node": dict(nc.NODE_A, idle=30), "peers": [peer_cfg("p1")],
                                    "apps": [app_cfg("a1", 4, peers=["p1"], kind="threading", max_threads=1, handler="slow7")]}
        return nc.replay_file("C20", path)
    return run("quick", body.get("seed", seed))
