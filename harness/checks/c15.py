"""C15 — outbound bytes = queued messages concatenated FIFO, intact, exactly once.

Model : spec/WriteBuf.tla (PlusCal; source-line labels; the `+=` is load / call / store),
        TLC exhaustive for several plans, every partial-write pattern, all interleavings;
        variants without either lock must violate it (vacuity guards).
Code  : a real Node with one READY connection; 1..3 virtual queueing threads call
        add_out_msg; the real writer thread and the real I/O loop run under every schedule with
        <= P preemptions at source-line grain (and at the as_bytes() call inside the `+=`);
        the virtual socket accepts bytes per a partial-write script (k bytes / EAGAIN / EINTR /
        ENOBUFS).  Oracle: accepted-bytes log == concatenation of the encodable messages in
        queueing order.  Each execution is also validated as a trace of WriteBuf by TLC.
"""
from __future__ import annotations

import errno
import inspect
import json
import os
import random
import re

from .. import simrt, tlc, explore, msgs
from ..common import Check, OUT, fan_out
from ..load import load
from ..world import World, peer_cfg, app_cfg

PLANS = {
    "A": {"q1": [1, 2], "q2": [3]},
    "B": {"q1": [1, 2], "q2": [3], "q3": [4]},
    "C": {"q1": [1, 2, 3, 4]},
    "D": {"q1": [1, 2, 3], "q2": [4, 5, 6]},
    "E": {"q1": [1], "q2": [2]},
}
# messages that cannot be encoded, and why: "avp" = wrongly typed attribute (AvpEncodeError), "hdr" = header field beyond
# 32 bits (packer error), "obj" = a non-AVP object in the AVP list (AttributeError/TypeError)
BAD = {"A": {2: "hdr"}, "B": {3: "avp"}, "C": {3: "obj"}, "D": {3: "hdr"}, "E": {}, "F": {2: "avp", 4: "obj"}}
PLANS["F"] = {"q1": [1, 2, 3], "q2": [4, 5]}
# plans with a prelude: the messages of PRE are queued and reach the write buffer at the atomic grain; exploration starts at
# the instant the I/O loop is inside send() for them, holding the write lock - the queueing threads start right there.
# (Interleavings that need the lock held while a message is queued are otherwise 2-3 preemptions deep.)  Byte oracle only:
# the prelude is not recorded, so these executions are not validated as WriteBuf traces.
PLANS["G"] = {"q1": [2], "q2": [3]}
PLANS["H"] = {"q1": [2, 3], "q2": [4]}
PRE = {"G": [1], "H": [1]}
BAD["G"] = {}
BAD["H"] = {}


def mk_msg(i, bad):
    m = msgs.dwr("node.r1", hbh=100 + i, e2e=200 + i)
    if i % 2 == 0:
        m.append_avp(msgs.Avp.new(msgs.K.AVP_USER_NAME, value="u" * (3 * i)))
    if bad == "avp":
        m.origin_state_id = "not-an-int"      # as_bytes() raises AvpEncodeError
    elif bad == "hdr":
        m.header.hop_by_hop_identifier = 2 ** 32 + i
    elif bad == "obj":
        m.append_avp(object())
    return m


def resolve_lines(ns):
    """source-line -> label for the studied functions; None if a pattern no longer resolves."""
    P, N = ns.peer, ns.node
    out = {}
    lf = {}
    src, first = inspect.getsourcelines(P.PeerConnection.work_write_queue)
    code_w = P.PeerConnection.work_write_queue.__code__
    lab = {}
    for i, line in enumerate(src):
        t = line.strip()
        if t.startswith("except Exception"):     # (the error path re-takes the lock only to count the message as handled)
            break
        if "self._write_buffer +=" in t and "as_bytes" in t:
            lab[first + i] = "wrd"
        elif t.startswith("with self.write_lock"):
            lab[first + i] = "wacq"
        elif t.startswith("self.demand_attention()"):
            lab[first + i] = "wdone"
    if sorted(lab.values()) not in (["wacq", "wdone", "wrd"], ["wdone", "wrd"]):
        return None
    out[code_w] = lab
    lf[code_w] = set(lab)
    src, first = inspect.getsourcelines(N.Node._handle_connections)
    code_io = N.Node._handle_connections.__code__
    lab = {}
    for i, line in enumerate(src):
        t = line.strip()
        if re.match(r"sent_bytes = wsock\.send\(", t):
            lab[first + i] = "isnd"
        elif t.startswith("with conn.write_lock"):
            lab[first + i] = "iacq"
        elif t.startswith("conn.remove_out_bytes("):
            lab[first + i] = "irm"
    if sorted(lab.values()) != ["iacq", "irm", "isnd"]:
        return None
    out[code_io] = lab
    lf[code_io] = set(lab)
    code_rm = P.PeerConnection.remove_out_bytes.__code__
    out[code_rm] = {}
    lf[code_rm] = None
    return out, lf, code_w, code_io, code_rm


def run_one(plan_name, script, policy, trace=True):
    ns = load()
    plan = PLANS[plan_name]
    bad = BAD[plan_name]
    res = resolve_lines(ns)
    w = World(peers=[peer_cfg("p1")], apps=[app_cfg("a1", peers=["p1"])])
    s = w.s
    events = []
    try:
        if res is not None:
            labels, lf, code_w, code_io, code_rm = res
            s.tracing = False
            s.tracefn = explore.make_line_tracer(
                s, {code_w: "w", code_io: "io", code_rm: "rm"}, call_boundaries=True,
                line_filter={code_io: lf[code_io], code_w: lf[code_w]}, call_names={"as_bytes"})
        w.start()
        vc = w.accept()
        w.feed(vc, [msgs.cer("p1.r1")])
        conn = w.peers["p1"].connection
        assert conn is not None and conn.state == ns.peer.PEER_READY, "setup failed"
        base = len(vc.sock.sent)
        vc.sock.send_script.extend(script)
        pre = PRE.get(plan_name, [])
        nmsg = sum(len(v) for v in plan.values()) + len(pre)
        objs = {i: mk_msg(i, bad.get(i)) for i in range(1, nmsg + 1)}
        order = []
        sends = []

        def on_send(sock, data):
            pass

        def queuer(q):
            for i in plan[q]:
                conn.add_out_msg(objs[i])
                order.append(i)
                events.append({"ev": "enq", "q": q, "m": i})

        # record send() calls (accepted byte counts, incl. soft errors)
        real_send = vc.sock.send

        def send(data):
            n = len(data)
            # the argument has been evaluated (WriteBuf's `snap`), the system call has not happened yet: socket.send releases the
            # interpreter lock, so the writer and the queueing threads run during it - a scheduling point of its own
            if pre and not started[0]:
                start_exploration()
            if getattr(s, "tracing", False):
                s.yield_now(("call", "io", "send"))
            try:
                k = real_send(data)
            except OSError:
                events.append({"ev": "isnd", "k": 0, "n": n})
                raise
            events.append({"ev": "isnd", "k": k, "n": n})
            return k
        vc.sock.send = send

        def on_switch(t):
            wt = t._wait
            if wt is not None and isinstance(wt.what, tuple) and res is not None:
                kind, fn, ln = wt.what
                if fn == "w" and kind == "line" and labels[code_w].get(ln) == "wrd":
                    events.append({"ev": "wrd"})
                elif fn == "w" and kind == "call":
                    events.append({"ev": "wst"})
                elif fn == "io" and kind == "line" and labels[code_io].get(ln) == "irm":
                    events.append({"ev": "irm"})
        s.on_switch = on_switch
        for q in sorted(plan):
            simrt.Thread(target=queuer, args=(q,), name=q)
        started = [False]

        def start_exploration():
            started[0] = True
            s.policy = policy
            s.tracing = True
            for t in s.threads:
                if t.name in plan:
                    t.start()
        if pre:
            for i in pre:
                conn.add_out_msg(objs[i])
                order.append(i)
        else:
            start_exploration()
        s.run()
        if not started[0]:
            raise simrt.MachineryError("prelude of plan %s never reached send()" % plan_name)
        s.tracing = False
        s.policy = None
        # drain: the script may have ended with soft errors; the loop retries at wakeup
        for _ in range(3):
            if conn.write_buffer:
                w.tick(w.node.wakeup_interval)
        got = bytes(vc.sock.sent[base:])
        exp = b"".join(objs[i].as_bytes() for i in order if i not in bad)
        enclen = [0 if i in bad else len(objs[i].as_bytes()) for i in range(1, nmsg + 1)]
        events.append({"ev": "end", "sent": len(got)})
        return {"ok": got == exp, "got_len": len(got), "exp_len": len(exp), "order": order, "events": events,
                "exits": [(n, e) for n, e, _ in s.exits], "enclen": enclen, "resolved": res is not None,
                "first_diff": next((i for i, (a, b) in enumerate(zip(got, exp)) if a != b), min(len(got), len(exp))),
                "closed": vc.closed}
    finally:
        w.close()


def gen_scripts(tier, seed, nbytes):
    rng = random.Random(seed)
    soft = [-errno.EAGAIN, -errno.EINTR, -errno.ENOBUFS]
    scripts = [[], [1], [nbytes - 1], [7, -errno.EAGAIN, 13], [-errno.EINTR, 1, 1, 1], [-errno.ENOBUFS, 50, -errno.EAGAIN, 3]]
    for _ in range(12 if tier == "thorough" else 3):
        sc = []
        for _ in range(rng.randint(1, 6)):
            sc.append(rng.choice(soft) if rng.random() < 0.3 else rng.randint(1, max(2, nbytes // 2)))
        scripts.append(sc)
    return scripts


def _explore_item(arg):
    plan, script, P, max_runs = arg
    out = {"execs": 0, "viol": [], "traces": [], "sample": None, "resolved": True, "enclen": None}
    seen = set()
    for res, pol in explore.explore(lambda p: run_one(plan, script, p), P, max_runs=max_runs):
        out["execs"] += 1
        out["resolved"] = res["resolved"]
        out["enclen"] = res["enclen"]
        sched_ = [r[1] for r in pol.records]
        rp = {"plan": plan, "script": script, "schedule": sched_}
        if res["exits"]:
            out["viol"].append(("thread_died", "a node thread died: %r" % res["exits"], rp))
        if not res["ok"] and len(out["viol"]) < 20:
            out["viol"].append(("bytes_mismatch", "plan %s script %r: socket got %d bytes, expected %d (queue order %r), first difference at offset %d; schedule %r" % (
                plan, script, res["got_len"], res["exp_len"], res["order"], res["first_diff"], sched_), rp))
        key = json.dumps(res["events"])
        if key not in seen:
            seen.add(key)
            out["traces"].append((res["events"], sched_))
        if out["sample"] is None:
            out["sample"] = {"plan": plan, "script": script, "order": res["order"], "events": res["events"][:14], "bytes": res["got_len"]}
    return out


def run(tier, seed):
    ck = Check("C15", tier, seed, "model_checking")
    thorough = tier == "thorough"
    ck.assumptions += [
        "thread switches at source lines of work_write_queue / remove_out_bytes, at the send / lock / remove lines of the I/O loop, at the as_bytes() call inside the `+=`, and at every blocking primitive; not at bytecodes",
        "the virtual socket accepts k bytes or fails softly per script; hard write errors belong to C14",
    ]
    # ---- A. model -----------------------------------------------------------
    states = trans = 0
    base = {"q1": "@q1", "q2": "@q2", "q3": "@q3"}
    runs = [("A", "{q1,q2}"), ("C", "{q1}"), ("B", "{q1,q2,q3}")] + ([("D", "{q1,q2}")] if thorough else [])
    for name, qs in runs:
        cfg = tlc.cfg_text(dict(base, Queuers="@" + qs, Plan="<- Plan" + name, EncLen="<- Len" + name, WriterLocks=True, IoLocks=True),
                           invariants=["SentOk", "FinalOk", "Conserve"])
        r = tlc.run("MC_WriteBuf", cfg, "c15_mc_" + name, coverage=True, timeout=1800)
        tlc.must_ok(r, "MC_WriteBuf")
        if r["violated"] or not r["complete"]:
            raise tlc.TlcError("WriteBuf model violates %s" % r["violated"])
        states += r["distinct"]
        trans += r["generated"]
        for a in ("enq", "wst", "isnd", "irm"):
            if r["coverage"].get("WriteBuf." + a, {}).get("taken", 0) == 0:
                raise tlc.TlcError("vacuity: %s never taken" % a)
    for wl, il in ((False, True), (True, False)):
        cfg = tlc.cfg_text(dict(base, Queuers="@{q1,q2}", Plan="<- PlanA", EncLen="<- LenA", WriterLocks=wl, IoLocks=il), invariants=["SentOk", "Conserve"])
        r = tlc.run("MC_WriteBuf", cfg, "c15_vac", timeout=600)
        if not r["violated"]:
            raise tlc.TlcError("vacuity guard failed: WriteBuf without a lock satisfies the invariants")
    ck.cov.update(states=states, transitions=trans, exhaustive=True, model_without_either_lock_violates=True)

    # ---- B. code -------------------------------------------------------------
    load()
    P = 3 if thorough else 2
    items = []
    for plan in (["A", "E", "C", "B", "D", "F", "G", "H"] if thorough else ["A", "E", "C", "F", "G", "H"]):
        nb = 80 * sum(len(v) for v in PLANS[plan].values())
        scripts = gen_scripts(tier, seed + len(plan), nb)
        for i, sc in enumerate(scripts):
            # the full preemption bound on the small plans; bound 1 + run cap on the larger ones
            small = plan in ("A", "E", "G")
            if plan == "F" and i > 2 and not thorough:
                continue
            items.append((plan, sc, P if small else (2 if thorough else 1), 6000 if thorough else 900))
    outs = fan_out(_explore_item, items)
    execs = 0
    traces_by_plan = {}
    resolved = True
    for item, out in zip(items, outs):
        execs += out["execs"]
        resolved = resolved and out["resolved"]
        for sig, detail, rp in out["viol"]:
            ck.violation(sig, detail, rp)
        if item[0] not in PRE:
            traces_by_plan.setdefault(item[0], {"enclen": out["enclen"], "tr": []})["tr"] += [(ev, sc, item[1]) for ev, sc in out["traces"]]
        else:
            ck.cov["executions_started_inside_send"] = ck.cov.get("executions_started_inside_send", 0) + out["execs"]
        if out["sample"]:
            ck.sample(out["sample"], limit=4)
    ck.cov["evaluations"] = execs
    ck.cov["preemption_bound"] = P
    ndist = sum(len(v["tr"]) for v in traces_by_plan.values())
    ck.cov["distinct_nontrivial"] = ndist
    ck.cov["rule"] = ("one evaluation = one execution of the real node (writer thread, I/O loop, queuers) under one schedule and one "
                      "partial-write script; distinct = distinct recorded event sequence; all are non-trivial (>= 2 messages, >= 2 threads)")
    # ---- conformance ----------------------------------------------------------
    validated = rejected = 0
    if not resolved:
        ck.drift_note("source lines of work_write_queue/_handle_connections no longer resolve to WriteBuf labels; trace conformance skipped")
    else:
        for plan, d in traces_by_plan.items():
            params = {"queuers": sorted(PLANS[plan]), "plan": PLANS[plan], "enclen": d["enclen"]}
            pp = os.path.join(OUT, "c15_params_%s.json" % plan)
            json.dump(params, open(pp, "w"))
            trs = d["tr"]
            if len(trs) > (6000 if thorough else 1500):
                random.Random(seed).shuffle(trs)
                trs = trs[:6000 if thorough else 1500]
            for off in range(0, len(trs), 750):
                chunk = trs[off:off + 750]
                tp = os.path.join(OUT, "c15_tr_%s_%d.json" % (plan, off))
                json.dump([ev for ev, _, _ in chunk], open(tp, "w"))
                cfg = tlc.cfg_text({"Queuers": "<- TQueuers", "Plan": "<- TPlan", "EncLen": "<- TEncLen", "WriterLocks": True, "IoLocks": True},
                                   spec="TSpec", invariants=["SentOk"], constraints=["Record"], postcondition="Accepted")
                r = tlc.run("Trace_C15", cfg, "c15_tv_%s_%d" % (plan, off), workers=1, env={"PARAMS": pp, "TRACES": tp}, timeout=3000, dfs_queue=True)
                tlc.must_ok(r, "Trace_C15")
                rej = re.findall(r'<<"REJECT", (\d+), (\d+)>>', r["out"])
                validated += len(chunk) - len(rej)
                rejected += len(rej)
                for i, pos in rej[:3]:
                    ev, sc, script = chunk[int(i) - 1]
                    ck.drift_note("WriteBuf trace (plan %s script %r) rejected at event %s: %r" % (plan, script, pos, ev[max(0, int(pos) - 3):int(pos) + 1]))
                if r["violated"]:
                    ck.drift_note("Trace_C15 invariant %s violated on a trace" % r["violated"])
    ck.cov["traces_validated_against_impl"] = validated
    ck.cov["traces_rejected"] = rejected
    return ck.finish()


def replay(path, seed):
    body = json.load(open(path))
    rp = body["replay"]
    res = run_one(rp["plan"], rp["script"], explore.Decisions(rp["schedule"]))
    print("replayed: ok=%s got=%d exp=%d order=%r" % (res["ok"], res["got_len"], res["exp_len"], res["order"]))
    if not res["ok"] or res["exits"]:
        print("VIOLATION property=C15 replay=%s" % path)
        return 1
    return 0
