"""C16 — hop-by-hop / end-to-end / session identifiers: unique under concurrency, never 0, wrap to 1.

Model   : spec/SeqGen.tla (PlusCal, one label per source line), TLC exhaustive.
Code    : every schedule (<= P preemptions, source-line grain) of 2..3 virtual threads drawing
          from one real generator; monitor evaluated on the values handed out; each execution
          validated as a trace against SeqGen (Trace_C16) by TLC.
Arithmetic on full-width values (limbs): long draw sequences across the wrap, the end-to-end
          initial value for all 4096 residues, the session id text — TLC as evaluator (SeqArith).
"""
from __future__ import annotations

import inspect
import json
import os
import re

from .. import simrt, tlc, explore
from ..common import Check, OUT
from ..load import load

REALMAX32 = 0xFFFFFFFF
REALMAX64 = 0xFFFFFFFFFFFFFFFF
SPECMAX = 12


class FixedRng:
    def __init__(self, value):
        self.value = value

    def randint(self, a, b):
        return max(a, min(b, self.value))         # a random source never leaves the range it was asked for

    def getrandbits(self, k):
        return self.value & ((1 << k) - 1)


class RangeRng(FixedRng):
    """the fixed value for draws of at most 20 bits, a different (fixed) value for wider draws"""

    def randint(self, a, b):
        return self.value if b <= 0xFFFFF else max(a, min(b, 0xA5A5A5A5))


def limbs(v, n):
    return [(v >> (16 * (n - 1 - i))) & 0xFFFF for i in range(n)]


def label_map(fn):
    """source line number -> label of SeqGen, by source text."""
    src, first = inspect.getsourcelines(fn)
    m = {}
    for i, line in enumerate(src):
        t = line.strip()
        ln = first + i
        if t.startswith("with ") and "lock" in t.lower():
            m[ln] = "acq"
        elif re.search(r"==\s*self\.MAX_SEQUENCE", t):
            m[ln] = "chk"
        elif re.search(r"=\s*self\.MIN_SEQUENCE", t):
            m[ln] = "wrap"
        elif "+= 1" in t:
            m[ln] = "inc"
        elif t.startswith("return self._sequence") or t.startswith("current_sequence = self._sequence"):
            m[ln] = "ret"
    return m


def run_one(kind, ncall, draws, start, policy):
    """One execution of ncall virtual threads drawing `draws` ids each.  -> dict"""
    ns = load()
    H = ns.helpers
    s = simrt.Scheduler()
    simrt.install(s)
    s.policy = policy
    if kind == "session":
        s.rng = FixedRng(start)
        gen = H.SessionGenerator("node.example.org")
        fn = H.SessionGenerator.next_id
        draw = lambda: int("".join(gen.next_id().split(";")[2:4]), 16)
    else:
        s.rng = FixedRng(start)
        gen = H.SequenceGenerator()
        fn = H.SequenceGenerator.next_sequence
        draw = gen.next_sequence
    code = fn.__code__
    lm = label_map(fn)
    s.tracefn = explore.make_line_tracer(s, {code: "gen"}, call_boundaries=False)
    got = {i: [] for i in range(ncall)}
    events = []

    def worker(i):
        for _ in range(draws):
            got[i].append(draw())

    def on_switch(t):
        w = t._wait
        if w is not None and isinstance(w.what, tuple) and w.what[0] == "line":
            lab = lm.get(w.what[2])
            if lab in ("chk", "wrap", "inc", "ret"):
                events.append([t._idx + 1, lab])

    s.on_switch = on_switch
    for i in range(ncall):
        simrt.Thread(target=worker, args=(i,)).start()
    try:
        s.run()
    finally:
        s.teardown()
    simrt.install(None)
    return {"got": got, "events": events, "exits": [(n, e) for n, e, _ in s.exits], "labels": sorted(set(lm.values()))}


def monitor(kind, start, got, realmax):
    """C16 on the values of one execution -> list of (sig, detail)."""
    out = []
    allv = [v for vs in got.values() for v in vs]
    if any(v == 0 for v in allv):
        out.append(("zero_id", "identifier 0 handed out: %r" % got))
    if any(not (1 <= v <= realmax) for v in allv):
        out.append(("out_of_range", "identifier outside 1..MAX: %r" % got))
    if len(set(allv)) != len(allv):
        out.append(("duplicate_id_concurrent", "the same identifier returned to two callers: %r (start %d)" % (got, start)))
    return out


def phi(v, start, realmax):
    """order isomorphism of the explored window of the 2^k-cycle onto the SPECMAX-cycle"""
    if start > realmax - SPECMAX:
        return v - (realmax - SPECMAX) if v > realmax - SPECMAX else v
    return v - start + 1  # start mapped to 1


def _explore_item(arg):
    (kind, realmax, nc, d, st), P = arg
    out = {"execs": 0, "labels": None, "viol": [], "traces": [], "samples": []}
    seen = set()
    def safe_run(p):
        try:
            return run_one(kind, nc, d, st, p)
        except (simrt.MachineryError, AssertionError):
            raise
        except Exception as e:       # the generator itself raised (construction or a draw outside the worker threads)
            return {"labels": None, "exits": [("generator", type(e).__name__)], "got": {}, "events": [], "raised": repr(e)}
    for res, pol in explore.explore(safe_run, P, max_runs=200000):
        if res.get("raised"):
            out["execs"] += 1
            out["viol"].append(("generator_raised", "the generator raised %s (kind %s, start %d)" % (res["raised"], kind, st),
                                {"kind": kind, "callers": nc, "draws": d, "start": st, "schedule": [r[1] for r in pol.records]}))
            break
        out["execs"] += 1
        out["labels"] = res["labels"]
        sched_ = [r[1] for r in pol.records]
        rp = {"kind": kind, "callers": nc, "draws": d, "start": st, "schedule": sched_}
        if res["exits"]:
            out["viol"].append(("thread_died", "caller thread died: %r" % res["exits"], rp))
        for sig, detail in monitor(kind, st, res["got"], realmax):
            if len(out["viol"]) < 50:
                out["viol"].append((sig, detail + " schedule=%r" % sched_, rp))
        ev = []
        rets = {i: 0 for i in range(nc)}
        for c, lab in res["events"]:
            e = {"c": c, "lab": lab, "val": 0}
            if lab == "ret":
                vs = res["got"][c - 1]
                e["val"] = phi(vs[rets[c - 1]], st, realmax) if rets[c - 1] < len(vs) else -1
                rets[c - 1] += 1
            ev.append(e)
        key = (kind, nc, d, st, tuple((e["c"], e["lab"]) for e in ev))
        if key not in seen:
            seen.add(key)
            out["traces"].append((key, {"start": phi(st, st, realmax), "ev": ev, "nc": nc, "d": d}, (kind, nc, d, st, sched_)))
        if out["execs"] <= 1:
            out["samples"].append({"kind": kind, "callers": nc, "draws": d, "start": st, "got": res["got"], "lines": res["events"][:16]})
    return out


def run(tier, seed):
    ck = Check("C16", tier, seed, "model_checking")
    thorough = tier == "thorough"
    ck.assumptions += [
        "scheduling points at source lines, call boundaries and lock operations of next_sequence/next_id (the grain C16 names); not at bytecodes",
        "values of real-width runs are mapped onto the spec's 12-cycle by an order isomorphism of the explored window",
    ]
    # ---- A. model: exhaustive ------------------------------------------------
    states = trans = 0
    cfgs = [(2, 2, 6), (2, 3, 6), (3, 2, 6)] + ([(3, 3, 9), (2, 3, 9)] if thorough else [])
    for nc, d, mx in cfgs:
        cfg = tlc.cfg_text({"Callers": "@{" + ",".join("c%d" % (i + 1) for i in range(nc)) + "}", "Draws": d,
                            "MAX": mx, "Locked": True}, invariants=["Distinct", "NonZero", "Consecutive", "OrderIsF"],
                           properties=["StepOk"])
        r = tlc.run("SeqGen", cfg, "c16_mc_%d_%d_%d" % (nc, d, mx), coverage=True, timeout=900)
        tlc.must_ok(r, "SeqGen")
        states += r["distinct"]
        trans += r["generated"]
        ck.count("tlc_runs")
        if r["violated"] or not r["complete"]:
            raise tlc.TlcError("SeqGen(Locked) does not satisfy C16 in the model: %s" % r["violated"])
        for a in ("wrap", "inc", "ret"):
            if r["coverage"].get("SeqGen." + a, {}).get("taken", 0) == 0:
                raise tlc.TlcError("vacuity: action %s never taken" % a)
    # vacuity guard: the unlocked lines must violate the property in the model
    cfg = tlc.cfg_text({"Callers": "@{c1,c2}", "Draws": 2, "MAX": 6, "Locked": False}, invariants=["Distinct"])
    r = tlc.run("SeqGen", cfg, "c16_mc_unlocked", timeout=300)
    if "Distinct" not in r["violated"]:
        raise tlc.TlcError("vacuity guard failed: unlocked SeqGen did not violate Distinct")
    ck.cov["unlocked_model_violates_Distinct"] = True
    ck.cov["states"] = states
    ck.cov["transitions"] = trans
    ck.cov["exhaustive"] = True

    # ---- B. code: all schedules within the preemption bound -------------------
    P = 3 if thorough else 2
    grid = []
    for kind, realmax in (("seq", REALMAX32), ("session", REALMAX64)):
        starts = [1, realmax - 2, realmax - 1, realmax]
        if not thorough:
            starts = [1, realmax - 1, realmax]
        for nc, d in ([(2, 1), (2, 2), (3, 1)] + ([(2, 3), (3, 2)] if thorough else [])):
            for st in starts:
                grid.append((kind, realmax, nc, d, st))
    traces = []
    trace_meta = []
    execs = 0
    distinct_sched = set()
    labels_seen = None
    load()
    from ..common import fan_out
    for item, out in zip(grid, fan_out(_explore_item, [(g, P) for g in grid])):
        kind, realmax, nc, d, st = item
        execs += out["execs"]
        labels_seen = out["labels"]
        for sig, detail, rp in out["viol"]:
            ck.violation(sig, detail, rp)
        for key, tr, meta in out["traces"]:
            if key not in distinct_sched:
                distinct_sched.add(key)
                traces.append(tr)
                trace_meta.append(meta)
        for smp in out["samples"]:
            ck.sample(smp, limit=3)
        ck.count("schedule_groups")
    ck.cov["executions_of_real_code"] = execs
    ck.cov["preemption_bound"] = P
    ck.cov["labels_resolved"] = labels_seen
    # conformance of every distinct line-level execution with SeqGen (batched by (nc, d))
    validated = 0
    if labels_seen and {"chk", "inc", "ret"} <= set(labels_seen):
        groups = {}
        for t, meta in zip(traces, trace_meta):
            groups.setdefault((t["nc"], t["d"]), []).append((t, meta))
        for (nc, d), items in groups.items():
            for off in range(0, len(items), 4000):
                chunk = items[off:off + 4000]
                p = os.path.join(OUT, "c16_traces_%d_%d_%d.json" % (nc, d, off))
                with open(p, "w") as f:
                    json.dump([{"start": t["start"], "ev": t["ev"]} for t, _ in chunk], f)
                cfg = tlc.cfg_text({"Callers": "@{" + ",".join("c%d" % (i + 1) for i in range(nc)) + "}", "Draws": d,
                                    "MAX": SPECMAX, "Locked": True}, spec="TSpec",
                                   invariants=["Distinct", "NonZero"], constraints=["Record"], postcondition="Accepted")
                r = tlc.run("Trace_C16", cfg, "c16_tv_%d_%d_%d" % (nc, d, off), workers=1, env={"TRACES": p}, timeout=1200)
                tlc.must_ok(r, "Trace_C16")
                rej = re.findall(r'<<"REJECT", (\d+), (\d+)>>', r["out"])
                validated += len(chunk) - len(rej)
                for i, pos in rej[:5]:
                    t, meta = chunk[int(i) - 1]
                    ck.drift_note("SeqGen trace %r rejected at event %s: %r" % (meta, pos, t["ev"][max(0, int(pos) - 2):int(pos) + 1]))
                if rej:
                    ck.count("traces_rejected", len(rej))
                if r["violated"]:
                    ck.drift_note("Trace_C16 invariant %s violated" % r["violated"])
    else:
        ck.drift_note("source-line labels of next_sequence/next_id no longer resolve; detailed conformance skipped")
    ck.cov["traces_validated_against_impl"] = validated
    ck.cov["evaluations"] = execs
    ck.cov["distinct_nontrivial"] = len(distinct_sched)
    ck.cov["rule"] = ("one evaluation = one complete execution of the real generator under one thread schedule; "
                      "distinct = distinct (generator, callers, draws, start, line-level interleaving); "
                      "non-trivial = at least two callers inside next_sequence/next_id concurrently is possible (always, >= 2 callers)")

    # ---- A2. unbounded: inductive invariant of the locked generator at MAX = 2^32 - 1 (Apalache) -----
    apalache_phase(ck)

    # ---- C. arithmetic on full-width values (TLC evaluator) ------------------
    ns = load()
    H = ns.helpers
    N = 100000 if thorough else 20000
    cases = []
    expect = []
    s = simrt.Scheduler()
    simrt.install(s)
    for realmax, nl, mk in ((REALMAX32, 2, "seq"), (REALMAX64, 4, "session")):
        for st in (realmax - N // 2, 7):
            s.rng = FixedRng(st)
            if mk == "seq":
                g = H.SequenceGenerator()
                obs = [g.next_sequence() for _ in range(N)]
            else:
                g = H.SessionGenerator("h.example")
                obs = [int("".join(g.next_id().split(";")[2:4]), 16) for _ in range(N)]
            cases.append({"op": "badsteps", "obs": [limbs(st, nl)] + [limbs(v, nl) for v in obs]})
            expect.append(("badsteps", mk, st))
    # end-to-end init: all 4096 residues of the start time
    e2e = []
    for n12 in range(4096):
        now = (0x65000 << 12) | n12
        r = 1 + (n12 * 2654435761 + seed) % 0xFFFFF
        s.rng = FixedRng(r)
        g = H.SequenceGenerator(now)
        e2e.append((n12, r, g.sequence))
        cases.append({"op": "e2einit", "n12": n12, "rhi": r >> 16, "rlo": r & 0xFFFF})
        expect.append(("e2einit", n12, g.sequence))
    # node-level: Node(...).end_to_end_seq is built from the node's start time (residue 0 included: a multiple of 4096 s),
    # and a time-seeded generator counts on through the whole 32-bit space: the low 20 bits carry into the time bits,
    # MAX is followed by 1
    node_cases = [(0, 5), (0, 0xFFFFF), (1, 0xFFFFD), (0x7FF, 0xFFFFE), (0x800, 1), (0xFFE, 0xFFFFE), (0xFFF, 0xFFFFB), (0xFFF, 0xFFFFF), (0xABC, 0x80000)]
    node_cases += [((seed * 7919 + 31 * k) % 4096, 1 + (seed * 104729 + 7 * k) % 0xFFFFF) for k in range(24 if thorough else 8)]
    for n12, r in node_cases:
        s.now = float((0x65321 << 12) | n12) + 0.25
        s.rng = RangeRng(r)
        node = ns.node.Node("node.example.org", "example.org")
        g = node.end_to_end_seq
        first = g.sequence
        cases.append({"op": "e2einit", "n12": n12, "rhi": r >> 16, "rlo": r & 0xFFFF})
        expect.append(("e2einit", n12, first))
        obs = [g.next_sequence() for _ in range(64)]
        cases.append({"op": "badsteps", "obs": [limbs(first, 2)] + [limbs(v, 2) for v in obs]})
        expect.append(("badsteps", "node_e2e(n12=%#x,r=%#x)" % (n12, r), first))
    # session id text
    sess = []
    for k, (st, opt) in enumerate([(5, []), (REALMAX64, ["user@host", "x"]), (0x1234567800000000 - 1, ["a"]),
                                   (0xFFFFFFFF, []), (0x00000000FFFFFFFE, ["é"])]):
        s.now = 1_700_000_000.0 + 12345 * k
        s.rng = FixedRng(st)
        ident = "host%d.realm.example" % k
        g = H.SessionGenerator(ident)
        sid = g.next_id(*opt)
        nxt = 1 if st == REALMAX64 else st + 1
        cases.append({"op": "session", "ident": list(ident.encode()), "t": limbs(int(s.now), 2), "c": limbs(nxt, 4),
                      "opt": [[ord(ch) for ch in o] for o in opt]})
        expect.append(("session", sid, [ord(ch) for ch in sid]))
        sess.append(sid)
    simrt.install(None)
    outs = tlc.evaluate("SeqArith", cases, "c16_arith", timeout=1800)
    for (exp, o) in zip(expect, outs):
        if exp[0] == "badsteps":
            if o["bad"]:
                ck.violation("successor_wrong_%s" % exp[1], "successive draws from start %d: wrong successor / zero at indices %r" % (exp[2], o["bad"][:5]),
                             {"kind": exp[1], "start": exp[2]})
            ck.count("long_sequences")
        elif exp[0] == "e2einit":
            want = (o["v"][0] << 16) | o["v"][1]
            if want != exp[2]:
                ck.violation("e2e_init", "end-to-end initial value for start time low bits %d is %#x, spec %#x" % (exp[1], exp[2], want), {"n12": exp[1]})
            ck.count("e2e_init_residues")
        else:
            if o["s"] != exp[2]:
                ck.violation("session_format", "session id %r differs from identity;time;hi;lo[;opt] = %r" % (exp[1], "".join(map(chr, o["s"]))), {"sid": exp[1]})
            ck.count("session_ids")
    ck.cov["long_sequence_draws"] = N * 4
    ck.sample({"session_ids": sess[:3]})
    return ck.finish()


def apalache_phase(ck):
    """spec/apalache/SeqGenInd.tla: Init => IndInv, IndInv /\\ Next => IndInv', IndInv => Safety, and the arithmetic lemma of
    F over unconstrained integers; a copy whose wrap goes to 0 must be rejected (vacuity guard)."""
    import shutil
    import subprocess
    if shutil.which("apalache-mc") is None:
        ck.note("apalache-mc not found: the unbounded inductive check was skipped")
        return
    src = os.path.join(os.path.dirname(OUT), "spec", "apalache")
    work = os.path.join(OUT, "c16_apalache")
    shutil.rmtree(work, ignore_errors=True)
    os.makedirs(work)
    for f in ("SeqGenInd.tla", "FLemma.tla"):
        shutil.copy(os.path.join(src, f), work)
    bad = os.path.join(work, "bad")
    os.makedirs(bad)
    text = open(os.path.join(src, "SeqGenInd.tla")).read()
    if "seq' = 1 /\\ pc'" not in text:
        raise tlc.TlcError("SeqGenInd.tla: the wrap action no longer reads as expected (vacuity guard cannot be built)")
    open(os.path.join(bad, "SeqGenInd.tla"), "w").write(text.replace("seq' = 1 /\\ pc'", "seq' = 0 /\\ pc'"))

    def ap(cwd, module, init, inv, length, tag):
        p = subprocess.run(["apalache-mc", "check", "--init=" + init, "--inv=" + inv, "--length=%d" % length,
                            "--out-dir=" + os.path.join(work, "out_" + tag), module], cwd=cwd, capture_output=True, text=True, timeout=900)
        out = p.stdout + p.stderr
        open(os.path.join(work, tag + ".log"), "w").write(out)
        if "The outcome is: NoError" in out:
            return True
        if "The outcome is: Error" in out:
            return False
        raise tlc.TlcError("apalache failed (%s): %s" % (tag, out[-1500:]))
    obligations = [(work, "SeqGenInd.tla", "Init", "IndInv", 0, "base"), (work, "SeqGenInd.tla", "IndInit", "IndInv", 1, "step"),
                   (work, "SeqGenInd.tla", "IndInit", "Safety", 0, "safety"), (work, "FLemma.tla", "Init", "Lemma", 0, "lemma")]
    for cwd, mod, init, inv, ln, tag in obligations:
        if not ap(cwd, mod, init, inv, ln, tag):
            raise tlc.TlcError("apalache: obligation %s (%s, %s) of SeqGenInd does not hold: see out/c16_apalache/%s.log" % (tag, init, inv, tag))
    if ap(bad, "SeqGenInd.tla", "IndInit", "IndInv", 1, "guard"):
        raise tlc.TlcError("vacuity guard failed: SeqGenInd with a wrap to 0 still satisfies the inductive step")
    shutil.rmtree(work, ignore_errors=True)
    ck.cov["apalache_inductive_invariant"] = "IndInv of spec/apalache/SeqGenInd.tla: base, step, Safety, FLemma hold for MAX = 2^32 - 1, 3 callers, unbounded draws; wrap-to-0 copy rejected"
    ck.cov["apalache_obligations"] = len(obligations) + 1


def replay(path, seed):
    body = json.load(open(path))
    rp = body.get("replay") or {}
    if "schedule" in rp:
        res = run_one(rp["kind"], rp["callers"], rp["draws"], rp["start"], explore.Decisions(rp["schedule"]))
        realmax = REALMAX64 if rp["kind"] == "session" else REALMAX32
        v = monitor(rp["kind"], rp["start"], res["got"], realmax)
        print("replayed: got=%r violations=%r" % (res["got"], v))
        if v:
            print("VIOLATION property=C16 replay=%s" % path)
            return 1
        return 0
    print("replay: arithmetic case, re-run ./check C16")
    return run("quick", seed)
