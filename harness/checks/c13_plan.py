PROFILE = {"weights": [4, 3, 1, 1, 2, 1, 2, 1, 0, 0], "act": {"tick": 6, "connect": 5, "feed": 10, "connect_result": 6, "plan": 2, "peer_close": 3, "peer_reset": 3, "garbage": 2, "multi": 3}}
ASSUME = ["each connection carries at most one CER; an outbound connection never claims to be a different configured peer",
          "a connection belongs to the peer it was dialled to, or to the Origin-Host of the CER that was answered 2001 on it"]


def plans(tier):
    th = tier == "thorough"
    mc = [dict(cfg="A", depth=6 if th else 5, maxtime=3, alpha=["cer", "dpr", "req"], pairs=False, faults=True, maxconn=3),
          dict(cfg="B", depth=6 if th else 5, maxtime=4, alpha=["cea", "dpr", "dpa"], pairs=False, faults=True, maxconn=3)]
    if th:
        mc.append(dict(cfg="C", depth=5, maxtime=3, alpha=["cer", "cea", "dpr"], pairs=False, faults=True, maxconn=4, timeout=2400))
    sim = [dict(cfg="A", depth=12, maxtime=6, alpha=["cer", "dwr", "dpr", "dpa", "req"], num=400 if th else 60, maxconn=5),
           dict(cfg="C", depth=12, maxtime=8, alpha=["cer", "cea", "dwa", "dpr", "dpa", "req"], num=400 if th else 60, maxconn=6)]
    return mc, sim

def enum_plans(tier):
    th = tier == "thorough"
    return [dict(cfg="A", depth=6 if th else 5, maxtime=2, alpha=["cerok", "dpr", "garbage"], faults=True, maxconn=2),
            # two connections deliver undecodable bytes / are closed at the same instant (both signal the node within one cycle)
            dict(cfg="HOLD2", depth=5 if th else 4, maxtime=2, alpha=["cerok", "garbage2", "close2", "garbage"], faults=False, maxconn=2),
            dict(cfg="B", depth=6 if th else 5, maxtime=3, alpha=["ceaok", "dpr"], faults=True, maxconn=2),
            # an application registered while the node runs (its peers connected already, or later)
            dict(cfg="LATE", depth=6 if th else 5, maxtime=1, alpha=["cerok", "cer2", "addapp", "dpr"], faults=True, maxconn=2),
            # peers that spell their name differently in the CER (identities are case-insensitive)
            dict(cfg="HOLD2", depth=5 if th else 4, maxtime=1, alpha=["cerup", "req1", "dpr"], faults=True, maxconn=2)]
