PROFILE = {"weights": [2, 3, 1, 1, 2, 0, 2, 14, 0, 1], "act": {"tick": 8, "feed": 14, "connect": 4, "connect_result": 6, "peer_close": 1.5, "peer_reset": 1.5},
           "send": 12}
ASSUME = ["the selection callback is the harness's (it records the offered peers and returns the first or last as the scenario says, or hands over to the library's default select_least_used_peer, whose choice is judged against the public request counters shown before the step)",
          "send_request is called from virtual application threads; hop-by-hop ids drawn on different connections by ONE application are distinct (its waiters are keyed by hop-by-hop id alone); different applications may draw equal ids on different connections"]


def plans(tier):
    th = tier == "thorough"
    mc = [dict(cfg="A", depth=6 if th else 5, maxtime=3, alpha=["cer", "sans", "send", "dpr"], pairs=False, faults=True, maxconn=2),
          dict(cfg="C", depth=6 if th else 5, maxtime=3, alpha=["cer", "cea", "sans", "send"], pairs=False, faults=False, maxconn=3)]
    sim = [dict(cfg="C", depth=14, maxtime=6, alpha=["cer", "cea", "sans", "send", "dpr", "ans"], num=400 if th else 80, maxconn=4, pairs=False),
           dict(cfg="DEF", depth=14, maxtime=6, alpha=["cer", "sans", "send", "dwr"], num=400 if th else 80, maxconn=4, pairs=False)]
    return mc, sim


def _cer10(host):
    from .. import nodetrace as nt
    return nt.M("CE", True, 1, 1, oh=host, auth=[4])


def enum_plans(tier):
    th = tier == "thorough"
    # one connection: requests sent with a short timeout; answers in time, late (after the timeout) and repeated
    from .c09_plan import two_ready_prefix
    return [dict(cfg="A", depth=7 if th else 6, maxtime=3, alpha=["cerok", "send1", "sans"], faults=False, maxconn=1),
            # two applications each send over their own peer's connection; both connections draw the same hop-by-hop id;
            # answers in every order, also repeated
            dict(cfg="TWOSAME", depth=5 if th else 4, maxtime=0, alpha=["send1", "sans"], faults=False, maxconn=2, prefix=two_ready_prefix()),
            # requests naming a Destination-Host: the other application's peer, ready and in the same realm, stays ineligible
            dict(cfg="TWOAPPS", depth=4 if th else 3, maxtime=1, alpha=["sendh", "sans"], faults=False, maxconn=2, prefix=two_ready_prefix()),
            # the library's own selection callback (select_least_used_peer) between two eligible ready peers whose request
            # counters are moved apart and level again by watchdog requests on either connection
            dict(cfg="HOLD2", depth=6 if th else 5, maxtime=0, alpha=["sendd", "dwr"], faults=False, maxconn=2, prefix=two_ready_prefix()),
            # three peers: the first is dialled at start and not through its exchange (it has a connection, which is not ready, and
            # the fewest requests), the other two are ready - the callback must be offered exactly the ready ones
            dict(cfg="THREE", depth=3 if th else 2, maxtime=0, alpha=["sendd", "send1", "dwr"], faults=False, maxconn=3,
                 prefix=[{"a": "connect"}, {"a": "connect"}, {"a": "feed", "c": 2, "ms": [_cer10("p2.r1")]}, {"a": "feed", "c": 3, "ms": [_cer10("p3.r1")]}])]
