"""C19 — per-transaction and per-connection state is released; nothing grows with use (Mon_C19.tla).

A. model      : MC_Node with Inv19 (tables, worker threads, sockets of Node.tla return to the baseline whenever
                every connection has ended and every request has been answered).
B/C.          : enumerated / generated / random histories of the real node, judged by Mon_C19 and validated
                against Node.tla including the sizes of the private tables, live worker threads, open sockets.
D. scaling    : N = 1, 10, 100 (thorough 1000) repetitions of each kind of transaction / connection attempt on
                the real node; retained containers (discovered structurally), live threads and open sockets
                are observed when idle; TLC (Mon_C19!ScaleVerdict) requires them to be equal across N.
"""
from __future__ import annotations

import collections
import json

from . import nodecommon as nc
from .. import nodetrace as nt
from ..common import fan_out
from ..world import peer_cfg, app_cfg

PROFILE = {"weights": [3, 3, 2, 2, 2, 1, 6, 3, 1, 1],
           "act": {"tick": 10, "connect": 5, "feed": 10, "connect_result": 6, "plan": 2, "peer_close": 5, "peer_reset": 3, "garbage": 1, "submit": 6},
           "send": 3}
ASSUME = ["idle = no connection left in the node's tables; worker threads are given 6 virtual seconds to notice their stop flag (they poll a queue with a 5 s timeout)",
          "documented fixed-size windows are excluded from the structural walk: deques with a maxlen, SecondSlotCounter slots, per-origin retransmission windows, statistics"]


def plans(tier):
    th = tier == "thorough"
    mc = [dict(cfg="A", depth=6 if th else 5, maxtime=8, alpha=["cerok", "req1", "dwr"], pairs=False, faults=True, maxconn=2),
          dict(cfg="B", depth=6 if th else 5, maxtime=8, alpha=["ceaok", "dpr", "send", "sans"], pairs=False, faults=True, maxconn=2)]
    sim = [dict(cfg="C", depth=20, maxtime=16, alpha=["cer", "cea", "dwr", "dwa", "dpr", "dpa", "req", "ans", "send", "sans", "garbage"], num=300 if th else 60, maxconn=6),
           dict(cfg="HOLD2", depth=20, maxtime=16, alpha=["cer", "req", "dpr", "dwr", "garbage"], num=300 if th else 60, maxconn=6)]
    return mc, sim


def enum_plans(tier):
    th = tier == "thorough"
    # every history of connection attempts of each outcome followed by silence long enough for the workers to exit
    return [dict(cfg="B", depth=9 if th else 8, maxtime=9 if th else 8, alpha=["ceaok"], faults=True, maxconn=2),
            dict(cfg="A", depth=9 if th else 8, maxtime=9 if th else 8, alpha=["cerok", "garbage"], faults=False, maxconn=1),
            # capabilities requests of every outcome (known / unknown host, no common application) and what they leave behind
            dict(cfg="A", depth=5 if th else 4, maxtime=2, alpha=["cer"], faults=True, maxconn=2),
            # a peer with two connections: requests answered over either, then the connections end in every order
            dict(cfg="A", depth=5 if th else 4, maxtime=1, alpha=["req1", "req2"], faults=True, maxconn=2, prefix=two_conn_prefix()),
            # the peer stops reading with output queued for it, then the connection closes itself (undecodable bytes) or is lost
            dict(cfg="A", depth=7 if th else 6, maxtime=7 if th else 6, alpha=["stall", "req1", "garbage"], faults=True, maxconn=1,
                 prefix=two_conn_prefix()[:1] + two_conn_prefix()[2:3]),
            # requests the node answers itself because the handler raised (5012): the transaction is complete, its record goes
            # while the connection stays
            dict(cfg="RAISE", depth=5 if th else 4, maxtime=0, alpha=["cerok", "req1", "req2"], faults=False, maxconn=1)]


def two_conn_prefix():
    from .. import nodetrace as nt
    cer = nt.M("CE", True, 1, 1, oh="p1.r1", auth=[4])
    return [{"a": "connect"}, {"a": "connect"}, {"a": "feed", "c": 1, "ms": [cer]}, {"a": "feed", "c": 2, "ms": [cer]}]


# ---------------------------------------------------------------------- scaling cycles
SCALE_CFG = {"node": {"idle": 3, "dwa": 2, "cer": 2, "cea": 2, "wakeup": 1, "retx": 4},
             "peers": [peer_cfg("p1", persistent=False), peer_cfg("p2", persistent=True, rwait=1)],
             "apps": [app_cfg("a1", 4, peers=["p1", "p2"], handler="answer"), app_cfg("a2", 3, peers=["p1"], handler="hold")]}


def structural(w):
    """sizes of every container attribute of the node, its applications and peers (windows excluded)"""
    out = {}

    def visit(prefix, obj, depth=0):
        for name, v in sorted(vars(obj).items()):
            if name in ("logger", "connection_logger", "stats_logger", "_busy_lock", "applications", "peers", "tcp_sockets", "sctp_sockets",
                        "vendor_ids", "ip_addresses", "_peer_routes", "unexpected", "inbox"):
                continue
            key = prefix + "." + name
            if isinstance(v, collections.deque):
                if v.maxlen is None:
                    out[key] = len(v)
                continue                       # fixed-size window
            if type(v).__name__ == "SecondSlotCounter" or type(v).__name__ == "PeerStats":
                continue                       # statistics windows
            if isinstance(v, dict):
                if name == "_sent_answers":    # per-origin retransmission windows: one bounded deque per origin host
                    continue
                out[key] = len(v) + sum(len(x) for x in v.values() if isinstance(x, (dict, list, set)))
            elif isinstance(v, (list, set)):
                out[key] = len(v)
            elif hasattr(v, "queue") and hasattr(v, "qsize"):
                out[key] = v.qsize()
    visit("node", w.node)
    for name, a in sorted(w.apps.items()):
        visit("app." + name, a)
    for name, p in sorted(w.peers.items()):
        visit("peer." + name, p)
    return sorted(out.items())


def _cer(host, hbh=1):
    return nt.M("CE", True, hbh, hbh, oh=host, auth=[4, 3])


TX_KINDS = ["in_req_answer", "in_req_hold", "in_rejected", "dwr_from_peer", "unexpected_answer", "out_req_answer", "out_req_timeout", "out_req_late_answer", "dwr_from_node"]


def cycle(kind, r: nt.Runner, i: int):
    """one repetition of a transaction / connection-attempt kind; leaves the node as it found it"""
    hb = 10 + i
    if kind in TX_KINDS:
        c = r.conn_c
        if kind == "in_req_answer":
            r.do({"a": "feed", "c": c, "ms": [nt.M("APP", True, hb, hb, app=4, oh="p1.r1", realm="r1")]})
        elif kind == "in_req_hold":
            r.do({"a": "feed", "c": c, "ms": [nt.M("APP", True, hb, hb, app=3, oh="p1.r1", realm="r1")]})
            name, req = r.held.pop()
            r.do({"a": "submit", "app": name, "m": nt.M("APP", False, hb, hb, app=3, oh=nt.NODE_HOST, rc=2001), "c0": c, "_req": req})
        elif kind == "in_rejected":
            r.do({"a": "feed", "c": c, "ms": [nt.M("APP", True, hb, hb, app=9, oh="p1.r1", realm="r1")]})
            r.do({"a": "feed", "c": c, "ms": [nt.M("APP", True, hb, hb + 1000, app=4, oh="p1.r1", realm="r9")]})
            r.do({"a": "feed", "c": c, "ms": [nt.M("APP", True, hb, hb + 2000, app=4, oh="p1.r1", realm="r1", miss=True)]})
            r.do({"a": "feed", "c": c, "ms": [nt.M("APP", True, hb, hb + 1000, app=4, oh="p1.r1", realm="r9", T=True)]})
        elif kind == "dwr_from_peer":
            r.do({"a": "feed", "c": c, "ms": [nt.M("DW", True, hb, hb, oh="p1.r1")]})
        elif kind == "unexpected_answer":
            r.do({"a": "feed", "c": c, "ms": [nt.M("APP", False, hb, hb, app=4, oh="p1.r1", rc=2001)]})
        elif kind == "out_req_answer":
            st = r.do({"a": "send", "k": i + 1, "app": "a1", "realm": "r1", "timeout": 30, "pick": "first"})
            tx = [e for e in st["out"] if e["ev"] == "tx"][-1]
            r.do({"a": "feed", "c": tx["c"], "ms": [nt.M("APP", False, tx["m"]["hbh"], tx["m"]["e2e"], app=4, oh="p1.r1", rc=2001)]})
        elif kind in ("out_req_timeout", "out_req_late_answer"):
            st = r.do({"a": "send", "k": i + 1, "app": "a1", "realm": "r1", "timeout": 1, "pick": "first"})
            tx = [e for e in st["out"] if e["ev"] == "tx"][-1]
            for _ in range(2):
                st2 = r.do({"a": "tick"})
                for e in st2["out"]:          # keep the connection alive: answer the node's watchdog requests
                    if e["ev"] == "tx" and e["m"]["cmd"] == "DW" and e["m"]["req"]:
                        r.do({"a": "feed", "c": e["c"], "ms": [nt.M("DW", False, e["m"]["hbh"], e["m"]["e2e"], oh="p1.r1", rc=2001)]})
            if kind == "out_req_late_answer":
                r.do({"a": "feed", "c": tx["c"], "ms": [nt.M("APP", False, tx["m"]["hbh"], tx["m"]["e2e"], app=4, oh="p1.r1", rc=2001)]})
        elif kind == "dwr_from_node":
            for _ in range(8):
                st = r.do({"a": "tick"})
                tx = [e for e in st["out"] if e["ev"] == "tx" and e["m"]["cmd"] == "DW" and e["m"]["req"]]
                if tx:
                    r.do({"a": "feed", "c": tx[0]["c"], "ms": [nt.M("DW", False, tx[0]["m"]["hbh"], tx[0]["m"]["e2e"], oh="p1.r1", rc=2001)]})
                    break
        return
    # connection attempts
    if kind == "conn_peer_closes":
        st = r.do({"a": "connect"})
        c = st["out"][0]["c"]
        r.do({"a": "feed", "c": c, "ms": [_cer("p1.r1")]})
        r.do({"a": "peer_close", "c": c})
    elif kind == "conn_dpr":
        st = r.do({"a": "connect"})
        c = st["out"][0]["c"]
        r.do({"a": "feed", "c": c, "ms": [_cer("p1.r1")]})
        r.do({"a": "feed", "c": c, "ms": [nt.M("DP", True, 5, 5, oh="p1.r1")]})
        r.do({"a": "peer_close", "c": c})
    elif kind == "conn_unknown_peer":
        st = r.do({"a": "connect"})
        r.do({"a": "feed", "c": st["out"][0]["c"], "ms": [_cer("x.r9", hbh=hb)]})     # (identifiers differ from one repetition to the next)
    elif kind == "conn_no_common_app":
        st = r.do({"a": "connect"})
        c = st["out"][0]["c"]
        r.do({"a": "feed", "c": c, "ms": [nt.M("CE", True, hb, hb, oh="p1.r1", auth=[77])]})
        r.do({"a": "peer_reset", "c": c})
    elif kind == "conn_cer_timeout":
        r.do({"a": "connect"})
        for _ in range(4):
            r.do({"a": "tick"})
    elif kind == "conn_garbage":
        st = r.do({"a": "connect"})
        r.do({"a": "garbage", "c": st["out"][0]["c"]})
    elif kind in ("dial_refused", "dial_async_fail", "dial_cea_rejected", "dial_ok_peer_closes"):
        # p2 is persistent: the node dials it again one second after every loss
        plan = {"dial_refused": "fail", "dial_async_fail": "inprogress", "dial_cea_rejected": "ok", "dial_ok_peer_closes": "ok"}[kind]
        r.do({"a": "plan", "plan": [plan]})
        c = None
        for _ in range(4):
            st = r.do({"a": "tick"})
            d = [e for e in st["out"] if e["ev"] == "dial"]
            if d:
                c = d[0]["c"]
                break
        if c is None:
            return
        if kind == "dial_async_fail":
            r.do({"a": "connect_result", "c": c, "err": 111})
        elif kind == "dial_cea_rejected":
            tx = [m for m in r.vcs[c].tx if m["cmd"] == "CE"][-1]
            r.do({"a": "feed", "c": c, "ms": [nt.M("CE", False, tx["hbh"], tx["e2e"], oh="p2.r1", rc=5010, auth=[4])]})
        elif kind == "dial_ok_peer_closes":
            tx = [m for m in r.vcs[c].tx if m["cmd"] == "CE"][-1]
            r.do({"a": "feed", "c": c, "ms": [nt.M("CE", False, tx["hbh"], tx["e2e"], oh="p2.r1", rc=2001, auth=[4])]})
            r.do({"a": "peer_close", "c": c})


CONN_KINDS = ["conn_peer_closes", "conn_dpr", "conn_unknown_peer", "conn_no_common_app", "conn_cer_timeout", "conn_garbage",
              "dial_refused", "dial_async_fail", "dial_cea_rejected", "dial_ok_peer_closes"]


def scale_run(arg):
    kind, n = arg
    r = nt.Runner(SCALE_CFG, seed=1)
    try:
        r.do({"a": "plan", "plan": ["fail"]})       # the persistent peer's first dial is refused
        r.do({"a": "start"})
        if kind in TX_KINDS:
            st = r.do({"a": "connect"})
            r.conn_c = st["out"][0]["c"]
            r.do({"a": "feed", "c": r.conn_c, "ms": [_cer("p1.r1")]})
        r.w.connect_plan = [] if kind.startswith("dial") else [111] * 1000   # other kinds: the persistent peer stays unreachable
        for i in range(n):
            if kind in TX_KINDS and kind != "dwr_from_node" and i % 2 == 1:
                pass
            cycle(kind, r, i)
            if not kind.startswith("dial"):
                r.w.connect_plan = [111] * 1000  # keep the persistent peer's reconnects failing meanwhile
        # end every connection, let the workers notice, observe
        r.w.connect_plan = [111] * 1000
        for c, vc in sorted(r.vcs.items()):
            if not vc.closed and not vc.sock.remote_closed and not vc.sock.connecting:
                r.do({"a": "peer_close", "c": c})
        for _ in range(7):
            r.do({"a": "tick"})
        steps = len(r.steps)
        r.steps = r.steps[-3:]
        obs = {"obs": True, "kind": kind, "n": n, "ret": [[k, v] for k, v in structural(r.w)], "threads": r.w.snap()["tb"][7],
               "open": r.w.snap()["tb"][8], "idle": r.w.snap()["conns"] == [], "steps": steps,
               "exits": [(a, b) for a, b, _ in r.w.s.exits]}
        return obs
    finally:
        r.close()


def window_stage(seconds):
    """statistics records: a peer that sends one watchdog request per second for longer than the statistics windows are
    wide (1000 s), with the node's own statistics thread sampling as it always does; -> sizes of every window found"""
    from ..world import World
    from ..load import load
    from .. import msgs
    load()
    w = World(peers=[peer_cfg("p1")], apps=[app_cfg("a1", peers=["p1"])])
    try:
        w.start()
        vc = w.accept()
        w.feed(vc, [msgs.cer("p1.r1")])
        for t in range(seconds):
            w.feed(vc, [msgs.dwr("p1.r1", hbh=t + 2, e2e=t + 2)])
            w.tick(1)
        out = []
        for name, po in sorted(w.peers.items()):
            st = po.statistics
            for key, v in sorted(vars(st).items()):
                items = list(v.items()) if isinstance(v, dict) else [("", v)]
                for sub, x in items:
                    if type(x).__name__ == "SecondSlotCounter":
                        out.append(("%s.%s%s" % (name, key, "[%s]" % sub if sub else ""), len(x._slots), x._maxage + 1))
                    elif isinstance(x, collections.deque):
                        out.append(("%s.%s%s" % (name, key, "[%s]" % sub if sub else ""), len(x), x.maxlen if x.maxlen is not None else -1))
        out.append(("node.statistics_history", len(w.node.statistics_history), w.node.statistics_history.maxlen or -1))
        answered = sum(1 for m in vc.tx if m["cmd"] == "DW" and not m["req"])
        return out, answered, [(n, e) for n, e, _ in w.s.exits]
    finally:
        w.close()


def run(tier, seed):
    mc, sim = plans(tier)
    ck = nc.run_property("C19", tier, seed, "Inv19", PROFILE, mc, sim, 1200 if tier == "thorough" else 200, ASSUME, enum_plan=enum_plans(tier))
    # ---- the free grain: IdleClean after every single thread step, under every interleaving ---------------
    th = tier == "thorough"
    nc.free_phase(ck, "C19", [
        dict(cfg="A", depth=10 if th else 8, maxtime=3, alpha=["cerok", "req1"], faults=True, maxconn=1, invs=["IdleClean"],
             guard=dict(pinned=["F19cd"], invs=["IdleClean"]),
             sim=300 if th else 50, sim_depth=22, sim_alpha=["cerok", "req1", "dwr", "dpr", "garbage"], sim_maxconn=3, sim_maxtime=12),
        dict(cfg="B", depth=9 if th else 8, maxtime=3, alpha=["ceaok", "dpr"], faults=True, maxconn=2, invs=["IdleClean"],
             sim=300 if th else 50, sim_depth=22, sim_alpha=["ceaok", "dpr", "dwr", "send1", "sans"], sim_maxconn=3, sim_maxtime=12)], seed)
    # ---- D. scaling ---------------------------------------------------------------
    ns = [1, 10, 100] + ([1000] if tier == "thorough" else [])
    kinds = TX_KINDS + CONN_KINDS
    jobs = [(k, n) for k in kinds for n in ns]
    obs = fan_out(scale_run, jobs)
    by_kind = {}
    for o in obs:
        by_kind.setdefault(o["kind"], []).append(o)
    params = nt.model_params(nc.full_cfg(SCALE_CFG), max_conn=9)
    traces = [sorted(v, key=lambda o: o["n"]) for k, v in sorted(by_kind.items())]
    res = nt.mon_batch(params, traces, "c19_scale")
    for tr, r in zip(traces, res):
        kind = tr[0]["kind"]
        if not all(o["idle"] for o in tr):
            ck.note("scaling %s: node not idle at the end of a run (machinery): %r" % (kind, [o["n"] for o in tr if not o["idle"]]))
        for v in r.get("C19", []):
            o = tr[v["at"] - 1]
            base = dict(map(tuple, tr[0]["ret"]))
            diff = {k: (base.get(k), val) for k, val in map(tuple, o["ret"]) if base.get(k) != val}
            grown = sorted(diff)
            sig = v["sig"] + ":" + kind + (":" + "+".join(g.split(".")[-1] for g in grown) if grown else "")
            ck.violation(sig, "%s repeated %d times: %s (N=1 -> N=%d): %r threads %s->%s open sockets %s->%s" % (
                kind, o["n"], v["sig"], o["n"], diff, tr[0]["threads"], o["threads"], tr[0]["open"], o["open"]), {"scale": kind, "n": o["n"]})
        if any(o["exits"] for o in tr):
            ck.note("scaling %s: thread exits %r" % (kind, [o["exits"] for o in tr if o["exits"]][:1]))
    # ---- E. statistics windows: bounded by their width however long the traffic lasts --------------------
    secs = 2600 if th else 1300
    sizes, answered, exits = window_stage(secs)
    for name, n, bound in sizes:
        if bound < 0 or n > bound:
            ck.violation("statistics_window_exceeds_its_width:%s" % name.split("[")[0].split(".")[-1],
                         "after %d s with one watchdog request per second %s holds %d records (window width %s)" % (secs, name, n, bound if bound >= 0 else "unbounded"),
                         {"window_stage": secs})
    if answered != secs or exits or not any(n >= 1000 for _, n, _ in sizes):
        raise nc.tlc.TlcError("window stage did not run as intended: %d of %d watchdog requests answered, exits %r, sizes %r" % (answered, secs, exits, sizes))
    ck.cov["statistics_windows_observed"] = len(sizes)
    ck.cov["statistics_window_seconds"] = secs
    ck.cov["scaling_runs"] = len(obs)
    ck.cov["scaling_kinds"] = len(kinds)
    ck.cov["scaling_repetitions"] = ns
    ck.cov["structural_containers_observed"] = len(obs[0]["ret"]) if obs else 0
    ck.cov["evaluations"] = ck.cov.get("evaluations", 0) + len(obs)
    ck.sample({"scaling": obs[1]["kind"], "n": obs[1]["n"], "retained": obs[1]["ret"][:8], "threads": obs[1]["threads"], "open": obs[1]["open"]})
    return ck.finish()


def replay(path, seed):
    body = json.load(open(path))
    rp = body["replay"]
    if "scale" in rp:
        a = scale_run((rp["scale"], 1))
        b = scale_run((rp["scale"], rp["n"]))
        same = a["ret"] == b["ret"] and a["threads"] == b["threads"] and a["open"] == b["open"]
        print("replayed scaling %s N=1 vs N=%d: %s" % (rp["scale"], rp["n"], "equal" if same else "DIFFERENT"))
        if not same:
            print("VIOLATION property=C19 replay=%s" % path)
            return 1
        return 0
    return nc.replay_file("C19", path)
