"""C10 — requests go only to eligible ready peers; answers return to their sender (Mon_C10.tla)"""
from . import nodecommon as nc
from .c10_plan import PROFILE, plans, ASSUME


def run(tier, seed):
    mc, sim = plans(tier)
    ck = nc.run_property("C10", tier, seed, "Inv10", PROFILE, mc, sim, 1500 if tier == "thorough" else 240, ASSUME)
    return ck.finish()


def replay(path, seed):
    return nc.replay_file("C10", path)
