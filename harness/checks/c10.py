"""C10 — requests go only to eligible ready peers; answers return to their sender (Mon_C10.tla)"""
from . import nodecommon as nc
from .c10_plan import PROFILE, plans, ASSUME, enum_plans


def run(tier, seed):
    mc, sim = plans(tier)
    ck = nc.run_property("C10", tier, seed, "Inv10", PROFILE, mc, sim, 1500 if tier == "thorough" else 240, ASSUME, enum_plan=enum_plans(tier))
    # ---- schedules: one action under every thread schedule within the preemption bound -------------
    from .. import schedscen, nodetrace as nt
    P = 3 if tier == "thorough" else 2
    runs, n = schedscen.explore_scenario(schedscen.c10_send_with_fast_peer, P)
    res = nt.mon_batch(runs[0][0]["params"], [r["steps"] for r, _ in runs], "c10_sched")
    for (r, sched), v in zip(runs, res):
        for x in v.get("C10", []):
            ck.violation(x["sig"] + ":schedule", "scenario c10_send_with_fast_peer under schedule %r: %s" % (sched, [nc.brief(e) for e in r["steps"][-1]["out"]]),
                         {"sched_scenario": "c10_send_with_fast_peer", "schedule": sched})
        if r["exits"]:
            ck.note("thread exits in a schedule scenario (judged by C14): %r" % (r["exits"][:2],))
    # ---- an answer that arrives after more than the library's largest table bound (10240) of other requests were routed ----
    nb = 70000 if tier == "thorough" else 10500
    h = schedscen.c10_answer_after_many_other_requests(nb)
    v = nt.mon_batch(h["params"], [h["steps"]], "c10_many")[0].get("C10", [])
    for x in v:
        ck.violation(x["sig"] + ":after_many_requests", "a sender's answer arriving after %d other requests were routed: %s" % (
            nb, [nc.brief(e) for st in h["steps"][-2:] for e in st["out"]]), {"many": nb})
    ck.cov["requests_routed_between_request_and_answer"] = nb
    ck.cov["schedules_explored"] = n
    ck.cov["schedule_preemption_bound"] = P
    ck.cov["schedule_distinct_outcomes"] = len(runs)
    return ck.finish()


def replay(path, seed):
    import json
    body = json.load(open(path))
    if "many" in (body.get("replay") or {}):
        from .. import schedscen, nodetrace as nt
        h = schedscen.c10_answer_after_many_other_requests(body["replay"]["many"])
        v = nt.mon_batch(h["params"], [h["steps"]], "c10_many_replay")[0].get("C10", [])
        print("replayed: %s" % v)
        if v:
            print("VIOLATION property=C10 replay=%s" % path)
            return 1
        return 0
    if "sched_scenario" in (body.get("replay") or {}):
        from .. import schedscen, explore, nodetrace as nt
        rp = body["replay"]
        r = getattr(schedscen, rp["sched_scenario"])(explore.Decisions(rp["schedule"]))
        v = nt.mon_batch(r["params"], [r["steps"]], "c10_sched_replay")[0].get("C10", [])
        print("replayed schedule: %s" % v)
        if v:
            print("VIOLATION property=C10 replay=%s" % path)
            return 1
        return 0
    return nc.replay_file("C10", path)
