"""C12 — disconnect-peer handling and reconnect policy (Mon_C12.tla)"""
from . import nodecommon as nc
from .c12_plan import PROFILE, plans, ASSUME, enum_plans


def run(tier, seed):
    mc, sim = plans(tier)
    ck = nc.run_property("C12", tier, seed, "Inv12", PROFILE, mc, sim, 1500 if tier == "thorough" else 240, ASSUME, enum_plan=enum_plans(tier))
    return ck.finish()


def replay(path, seed):
    return nc.replay_file("C12", path)
