PROFILE = {"weights": [2, 2, 3, 3, 2, 2, 7, 4, 2, 2], "act": {"tick": 3, "feed": 14}}
ASSUME = ["requests count as received when fed to the socket; hop-by-hop ids of in-flight requests may repeat (multiset matching)"]


def plans(tier):
    th = tier == "thorough"
    mc = [dict(cfg="A", depth=5 if th else 4, maxtime=2, alpha=["cer", "dwr", "dwr0", "dwa", "dpr", "req", "req0", "ans", "ureq"], pairs=False, faults=False, maxconn=2),
          dict(cfg="B", depth=5 if th else 4, maxtime=3, alpha=["cea", "dwr", "dpa", "req", "ans"], pairs=True, faults=True, maxconn=2)]
    if th:
        mc.append(dict(cfg="C", depth=5, maxtime=2, alpha=["cer", "cea", "req", "dpr", "ans"], pairs=False, faults=True, maxconn=3, timeout=2400))
    sim = [dict(cfg="A", depth=10, maxtime=5, alpha=["cer", "dwr", "dwr0", "dwa", "dpr", "dpa", "req", "req0", "ans", "ureq"], num=400 if th else 60, maxconn=3),
           dict(cfg="C", depth=10, maxtime=6, alpha=["cer", "cea", "dwr", "dwa", "dpr", "dpa", "req", "ans", "ureq"], num=400 if th else 60, maxconn=4)]
    return mc, sim


def _cer(host):
    from .. import nodetrace as nt
    return nt.M("CE", True, 1, 1, oh=host, auth=[4])


def two_ready_prefix():
    """two inbound connections, one per peer, both through their capabilities exchange"""
    return [{"a": "connect"}, {"a": "connect"}, {"a": "feed", "c": 1, "ms": [_cer("p1.r1")]}, {"a": "feed", "c": 2, "ms": [_cer("p2.r1")]}]


def _two_connections_prefix():
    from .c09_plan import two_connections_prefix
    return two_connections_prefix()


def enum_plans(tier):
    th = tier == "thorough"
    # two ready connections of two peers; the same hop-by-hop id in flight on both (equal and different end-to-end ids);
    # answers submitted in every order, also twice
    return [dict(cfg="HOLD2", depth=6 if th else 5, maxtime=0, alpha=["req1", "req2"] + (["resub"] if False else []), faults=False, maxconn=2, prefix=two_ready_prefix()),
            # zero is a legal identifier: watchdog and application requests with hop-by-hop = end-to-end = 0
            dict(cfg="A", depth=5 if th else 4, maxtime=0, alpha=["cerok", "dwr0", "req0"], faults=False, maxconn=1),
            # a peer with two connections, a request held on the second; connections are lost (either one, both) before the
            # application answers: whatever is transmitted then must answer a request received on that very connection
            dict(cfg="HOLD2", depth=4 if th else 3, maxtime=0, alpha=["req2"], faults=True, maxconn=2, prefix=_two_connections_prefix())]
