PROFILE = {"weights": [2, 2, 3, 3, 2, 2, 7, 4, 2, 2], "act": {"tick": 3, "feed": 14}}
ASSUME = ["requests count as received when fed to the socket; hop-by-hop ids of in-flight requests may repeat (multiset matching)"]


def plans(tier):
    th = tier == "thorough"
    mc = [dict(cfg="A", depth=5 if th else 4, maxtime=2, alpha=["cer", "dwr", "dwa", "dpr", "req", "ans", "ureq"], pairs=False, faults=False, maxconn=2),
          dict(cfg="B", depth=5 if th else 4, maxtime=3, alpha=["cea", "dwr", "dpa", "req", "ans"], pairs=True, faults=True, maxconn=2)]
    if th:
        mc.append(dict(cfg="C", depth=5, maxtime=2, alpha=["cer", "cea", "req", "dpr", "ans"], pairs=False, faults=True, maxconn=3, timeout=2400))
    sim = [dict(cfg="A", depth=10, maxtime=5, alpha=["cer", "dwr", "dwa", "dpr", "dpa", "req", "ans", "ureq"], num=400 if th else 60, maxconn=3),
           dict(cfg="C", depth=10, maxtime=6, alpha=["cer", "cea", "dwr", "dwa", "dpr", "dpa", "req", "ans", "ureq"], num=400 if th else 60, maxconn=4)]
    return mc, sim


def enum_plans(tier):
    th = tier == "thorough"
    # two connections, the same identifiers in flight on both, answers submitted in every order
    return [dict(cfg="HOLD2", depth=8 if th else 7, maxtime=0, alpha=["cerok", "req1"], faults=False, maxconn=2)]
