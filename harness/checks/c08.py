"""C08 — requests reach exactly the matching application, else the specified error (Mon_C08.tla)"""
from . import nodecommon as nc
from .c08_plan import PROFILE, plans, ASSUME, enum_plans


def run(tier, seed):
    mc, sim = plans(tier)
    ck = nc.run_property("C08", tier, seed, "Inv08", PROFILE, mc, sim, 1500 if tier == "thorough" else 240, ASSUME, enum_plan=enum_plans(tier))
    from . import c08_sweep
    n = c08_sweep.run_sweep(ck, tier, seed)
    ck.cov["evaluations"] = ck.cov.get("evaluations", 0) + n
    return ck.finish()


def replay(path, seed):
    import json
    body = json.load(open(path))
    if "sweep" in (body.get("replay") or {}):
        from ..common import Check
        from . import c08_sweep
        ck = Check("C08", "quick", seed, "model_checking", evidence=False)
        c08_sweep.run_sweep(ck, "quick", body.get("seed", seed))
        hit = [v for v in ck.violations if v["sig"] == body["sig"]] + ([1] if body["sig"] in ck.known else [])
        print("sweep re-run: %d violations with this signature" % len(hit))
        if hit:
            print("VIOLATION property=C08 replay=%s" % path)
            return 1
        return 0
    return nc.replay_file("C08", path)
