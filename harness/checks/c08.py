"""C08 — requests reach exactly the matching application, else the specified error (Mon_C08.tla)"""
from . import nodecommon as nc
from .c08_plan import PROFILE, plans, ASSUME, enum_plans


def run(tier, seed):
    mc, sim = plans(tier)
    ck = nc.run_property("C08", tier, seed, "Inv08", PROFILE, mc, sim, 1500 if tier == "thorough" else 240, ASSUME, enum_plan=enum_plans(tier))
    return ck.finish()


def replay(path, seed):
    return nc.replay_file("C08", path)
