"""C01 — AVP value <-> wire codec is exact, RFC 6733-conformant and lossless.

Model : spec/Wire.tla — the RFC's AVP layout and data formats as TLA+ operators (written from the RFC,
        in 16-bit limb arithmetic).  TLC evaluates EncAvp / InDomain for every generated case
        (spec/WireEval.tla) — "transcribe the format, generate one implementation test per case".
Code  : for each case Avp.new(...).as_bytes() must equal the reference octets; Avp.from_bytes(reference)
        must give the dictionary's class, equal code / vendor / flags / value and re-encode to the same
        octets; values the reference places outside the domain must be rejected with an error.
"""
from __future__ import annotations

import json
import datetime
import random

from .. import codec, tlc
from ..common import Check
from diameter.message import Avp
from diameter.message.avp import avp as avpmod
from diameter.message.avp.errors import AvpEncodeError, AvpDecodeError


def gen_cases(tier, seed):
    rng = random.Random(seed)
    entries = codec.dictionary()
    by_kind = {}
    for e in entries:
        by_kind.setdefault(codec.kind_of(e[2]), []).append(e)
    cases = []

    def add(recipe, spec, tag):
        cases.append({"recipe": recipe, "spec": spec, "tag": tag})

    # (1) every dictionary entry once (type-directed value, rotating M / P requests)
    flagsets = [(None, None), (True, None), (False, True), (None, True), (True, False), (False, None)]
    for i, e in enumerate(entries):
        reps = 8 if tier == "thorough" else 1
        for j in range(reps):
            r, s = codec.random_avp(rng, entries, code_vendor_entry=e, max_depth=2)
            M, P = flagsets[(i + j) % len(flagsets)]
            r["M"], r["P"] = M, P
            s["M"] = bool(e[2].get("mandatory")) if M is None else M
            s["P"] = bool(P)
            add(r, s, "dictionary")
    # (2) boundary values of every type x all M/P combinations x vendor / no vendor
    for kind, vals in codec.BOUNDS.items():
        pool = by_kind.get(kind, [])
        if not pool:
            continue
        picks = [pool[0], pool[-1]] + [p for p in pool if p[1] != 0][:1]
        for e in picks:
            for pv, vs in vals:
                for M in (True, False):
                    for P in (True, False):
                        r = {"code": e[0], "vendor": e[1], "kind": kind, "value": pv, "M": M, "P": P}
                        s = {"code": codec.limbs(e[0], 2), "vendor": codec.limbs(e[1], 2), "M": M, "P": P, "val": vs}
                        add(r, s, "boundary")
    # (3) octet strings of every length class up to 4096, unicode, grouped nesting up to 6
    ostr = by_kind["bytes"][0]
    lens = list(range(0, 20)) + [63, 64, 65, 255, 256, 257, 1023, 1024, 4093, 4094, 4095, 4096]
    if tier == "thorough":
        lens += [rng.randint(20, 4096) for _ in range(200)]
    for n in lens:
        pv, vs = codec.v_bytes(bytes(rng.getrandbits(8) for _ in range(n)))
        add({"code": ostr[0], "vendor": ostr[1], "kind": "bytes", "value": pv, "M": True, "P": None},
            {"code": codec.limbs(ostr[0], 2), "vendor": codec.limbs(ostr[1], 2), "M": True, "P": False, "val": vs}, "octets")
    for _ in range(4000 if tier == "thorough" else 60):
        r, s = codec.random_avp(rng, by_kind["group"] + entries[:50], max_depth=6, code_vendor_entry=rng.choice(by_kind["group"]))
        add(r, s, "grouped")
    for _ in range(120000 if tier == "thorough" else 1500):
        r, s = codec.random_avp(rng, entries, max_depth=2)
        add(r, s, "random")
    return cases, by_kind


def run(tier, seed):
    ck = Check("C01", tier, seed, "exploration")
    ck.assumptions += ["process TZ = UTC (datetimes are naive)", "IPv6 text compared after canonicalisation",
                       "Python float <-> IEEE-754 fields via math.ldexp (trusted); NaN is the canonical quiet NaN on the value side",
                       "the reference model Wire.tla is written from RFC 6733 and is itself trusted"]
    cases, by_kind = gen_cases(tier, seed)
    specs = [{"op": "avp", "avp": c["spec"]} for c in cases]
    outs = []
    B = 3000
    for off in range(0, len(specs), B):
        outs += tlc.evaluate("WireEval", specs[off:off + B], "c01_eval_%d" % off, timeout=3000)
    n_ok = 0
    kinds_seen = set()
    for c, o in zip(cases, outs):
        r, s = c["recipe"], c["spec"]
        exp = bytes(o["bytes"])
        kinds_seen.add((r["kind"], c["tag"]))
        rp = {"recipe": json.loads(json.dumps(r, default=str)), "spec": s}
        if not o["ok"]:
            ck.note("generator produced an out-of-domain value for %s" % r["kind"])
            continue
        try:
            a = codec.build(r)
            got = a.as_bytes()
        except Exception as e:
            ck.violation("encode_raised:%s:%s" % (r["kind"], type(e).__name__), "Avp.new/as_bytes raised %r for in-domain value %r of AVP %s/%s" % (e, r["value"], r["code"], r["vendor"]), rp)
            continue
        if got != exp:
            ck.violation("encode_differs:%s" % r["kind"], "AVP %s/%s value %r (M=%s P=%s): library %s, RFC reference %s" % (
                r["code"], r["vendor"], str(r["value"])[:80], r["M"], r["P"], got.hex()[:120], exp.hex()[:120]), rp)
            continue
        try:
            d = Avp.from_bytes(exp)
        except Exception as e:
            ck.violation("decode_raised:%s" % r["kind"], "Avp.from_bytes raised %r on %s" % (e, exp.hex()[:80]), rp)
            continue
        want_cls = avpmod.get_avp_dictionary_entry(r["code"], r["vendor"])["type"]
        if type(d) is not want_cls:
            ck.violation("decode_class:%s" % r["kind"], "decoded as %s, dictionary says %s" % (type(d).__name__, want_cls.__name__), rp)
        probs = codec.check_decoded(d, r, s)
        if probs:
            ck.violation("decode_differs:%s" % r["kind"], "AVP %s/%s from %s: %s" % (r["code"], r["vendor"], exp.hex()[:80], probs[:3]), rp)
        if d.as_bytes() != exp:
            ck.violation("reencode_differs:%s" % r["kind"], "decode/encode of %s gives %s" % (exp.hex()[:80], d.as_bytes().hex()[:80]), rp)
        # the value the decoder hands out is itself a value of the type's domain: a new AVP built from it has the same octets
        if not probs:
            try:
                fv = d.value
                if r["kind"] == "addr":
                    fv = fv[1]          # the setter takes the address text, the family is derived
                fb = Avp.new(r["code"], r["vendor"], value=fv, is_mandatory=s["M"], is_private=s["P"]).as_bytes()
            except Exception as e:
                fb = None
                ck.violation("decoded_value_not_encodable:%s" % r["kind"], "AVP %s/%s decoded from %s has value %r, which Avp.new rejects: %r" % (
                    r["code"], r["vendor"], exp.hex()[:80], str(d.value)[:60], e), rp)
            if fb is not None and fb != exp:
                ck.violation("decoded_value_reencodes_differently:%s" % r["kind"], "AVP %s/%s: value %r decoded from %s encodes as %s" % (
                    r["code"], r["vendor"], str(d.value)[:60], exp.hex()[:80], fb.hex()[:80]), rp)
        n_ok += 1
    # (4) values outside the domain are rejected with an error (per the reference's InDomain)
    n_out = 0
    for kind, vals in codec.OUT_OF_DOMAIN.items():
        e = by_kind[kind][0]
        for pv, vs in vals:
            n_out += 1
            if vs is not None:
                o = tlc.evaluate("WireEval", [{"op": "avp", "avp": {"code": [0, 1], "vendor": [0, 0], "M": False, "P": False, "val": vs}}], "c01_ood")[0]
                if o["ok"]:
                    ck.note("reference places %r inside the domain; skipped" % (pv,))
                    continue
            try:
                a = Avp.new(e[0], e[1], value=pv)
                b = a.as_bytes()
                far = kind == "time" and not (datetime.datetime(1900, 1, 1) <= pv.replace(tzinfo=None) < datetime.datetime(2172, 3, 15))
                ck.violation("out_of_domain_accepted:%s%s" % (kind, ":outside_1900_2172" if far else ""), "value %r of type %s was encoded as %s instead of being rejected" % (pv, kind, b.hex()), {"kind": kind, "value": str(pv)})
            except Exception:
                pass
    # (5) unknown codes decode as the generic class and re-encode; run-time registered definitions
    rng = random.Random(seed + 1)
    for code, vendor in ((99999990, 0), (99999991, 4242), (1, 99999)):
        data = bytes(rng.getrandbits(8) for _ in range(rng.randint(0, 9)))
        o = tlc.evaluate("WireEval", [{"op": "avp", "avp": {"code": codec.limbs(code, 2), "vendor": codec.limbs(vendor, 2), "M": True, "P": False, "val": {"t": "bytes", "b": list(data)}}}], "c01_unk")[0]
        exp = bytes(o["bytes"])
        d = Avp.from_bytes(exp)
        if type(d) is not Avp or d.code != code or d.vendor_id != vendor or d.payload != data or d.as_bytes() != exp:
            ck.violation("unknown_code", "unknown AVP %s/%s not decoded generically / not re-encoded identically" % (code, vendor), {"code": code, "vendor": vendor})
    # the codes about to be registered have been looked up before (decoded and constructed while still unknown):
    # the definition registered afterwards must nevertheless be the one in force
    for code, vendor in ((88888801, 7777701), (88888802, 0), (88888803, 0)):
        hdr = bytearray(Avp(code, vendor_id=vendor, payload=b"\x00\x00\x00\x4d").as_bytes())
        if type(Avp.from_bytes(bytes(hdr))) is not Avp:
            ck.note("test code %s/%s already has a definition (same process ran before)" % (code, vendor))
        try:
            Avp.new(code, vendor)
        except Exception:
            pass
    avpmod.register(88888801, "Verif-Test-U32", avpmod.AvpUnsigned32, vendor=7777701, mandatory=True)
    avpmod.register(88888802, "Verif-Test-Str", avpmod.AvpUtf8String)
    # a definition registered twice: the later registration is the dictionary's entry from then on
    avpmod.register(88888803, "Verif-Test-Re", avpmod.AvpUtf8String)
    try:
        first = Avp.new(88888803, value="1234")
        avpmod.register(88888803, "Verif-Test-Re", avpmod.AvpUnsigned32, mandatory=True)
        re_d = Avp.from_bytes(first.as_bytes())
        re_n = Avp.new(88888803, value=0x31323334)
        good = type(re_d).__name__ == "AvpUnsigned32" and re_d.value == 0x31323334 and re_n.as_bytes()[8:] == b"1234" and re_n.is_mandatory
    except Exception:
        good = False
    if not good:
        ck.violation("runtime_registered_definition", "a definition registered again for 88888803/0 (Unsigned32 after UTF8String) is not the one the codec uses", {"code": 88888803, "vendor": 0})
    for code, vendor, pv, vs, M in ((88888801, 7777701, 77, {"t": "uint", "limbs": [0, 77]}, True), (88888802, 0, "xy", {"t": "utf8", "cps": [120, 121]}, False)):
        o = tlc.evaluate("WireEval", [{"op": "avp", "avp": {"code": codec.limbs(code, 2), "vendor": codec.limbs(vendor, 2), "M": M, "P": False, "val": vs}}], "c01_reg")[0]
        exp = bytes(o["bytes"])
        try:
            a = Avp.new(code, vendor, value=pv)
            d = Avp.from_bytes(exp)
            good = a.as_bytes() == exp and d.value == pv and type(d).__name__ in ("AvpUnsigned32", "AvpUtf8String")
        except Exception as e:
            good = False
        if not good:
            ck.violation("runtime_registered_definition", "definition registered at run time for %s/%s is not used by the codec" % (code, vendor), {"code": code, "vendor": vendor})
    # (6) the V flag follows the vendor id through every way of setting it (constructor flags, attribute changes)
    n_v = 0
    for e in (by_kind["u32"][0], by_kind["utf8"][0], by_kind["bytes"][0]):
        code = e[0]
        pv, vs = codec.random_value(codec.kind_of(e[2]), random.Random(seed + n_v))
        for vendor_steps, final in (([10415, 0], 0), ([0, 193], 193), ([5, 7, 0], 0)):
            for ctor_flags in (0x00, 0x80, 0xC0):
                n_v += 1
                a = e[2]["type"](code, vendor_id=0, flags=ctor_flags)
                a.value = pv
                for v in vendor_steps:
                    a.vendor_id = v
                M = bool(ctor_flags & 0x40)
                o = tlc.evaluate("WireEval", [{"op": "avp", "avp": {"code": codec.limbs(code, 2), "vendor": codec.limbs(final, 2), "M": M, "P": False, "val": vs}}], "c01_vflag")[0]
                if a.as_bytes() != bytes(o["bytes"]):
                    ck.violation("v_flag_not_following_vendor_id", "AVP %s built with flags %#x then vendor_id set to %r: %s, reference %s" % (
                        code, ctor_flags, vendor_steps, a.as_bytes().hex()[:60], bytes(o["bytes"]).hex()[:60]), {"code": code, "steps": vendor_steps, "flags": ctor_flags})
    # (7) concurrent callers: the node's threads share the codec, so every interleaving of encoders / decoders (source-line
    #     scheduling points; every schedule with one preemption, two in the thorough tier) must give each caller the octets / value it gets when running alone
    n_conc = concurrent_callers(ck, cases, outs, tier)
    ck.cov["concurrent_schedules"] = n_conc
    ck.cov["evaluations"] = len(cases) + n_out + 5 + n_v
    ck.cov["distinct_nontrivial"] = len({json.dumps(c["spec"], sort_keys=True) for c in cases})
    ck.cov["rule"] = "one evaluation = one AVP (dictionary entry x value x M/P request) encoded and decoded against the TLA+ reference; distinct by reference specification; all carry a header and a typed payload"
    ck.cov["dictionary_entries"] = sum(1 for c in cases if c["tag"] == "dictionary")
    ck.cov["type_and_source_classes"] = len(kinds_seen)
    ck.cov["reference_evaluator"] = "TLC on spec/WireEval.tla (Wire!EncAvp, Wire!InDomain)"
    for c in cases[:: max(1, len(cases) // 4)][:4]:
        ck.sample({"code": c["recipe"]["code"], "vendor": c["recipe"]["vendor"], "kind": c["recipe"]["kind"], "value": str(c["recipe"]["value"])[:60], "spec": json.dumps(c["spec"])[:200]})
    return ck.finish()


def concurrent_callers(ck, cases, outs, tier):
    from .. import concur
    from diameter.message.packer import Packer, Unpacker
    studied = concur.studied_functions([avpmod.Avp, Packer, Unpacker, avpmod.get_avp_dictionary_entry])
    pick = {}
    for c, o in zip(cases, outs):
        k = c["recipe"]["kind"]
        if o["ok"] and k not in pick and k in ("u32", "utf8", "addr", "group", "time", "bytes") and (k != "group" or c["recipe"]["value"]):
            pick[k] = (c["recipe"], bytes(o["bytes"]))
    kinds = sorted(pick)
    pairs = [(kinds[i], kinds[(i + 1) % len(kinds)]) for i in range(len(kinds))]
    P = 2 if tier == "thorough" else 1
    total = 0

    def describe(v):
        return (type(v).__name__, v.code, v.vendor_id, v.flags, repr(v.value) if not isinstance(v.value, list) else len(v.value))

    for ka, kb in pairs:
        (ra, ba), (rb, bb) = pick[ka], pick[kb]
        for mode in ("encode", "decode"):
            def make_jobs():
                if mode == "encode":
                    a, b = codec.build(ra), codec.build(rb)
                    return [[a.as_bytes, a.as_bytes], [b.as_bytes]]
                return [[lambda: describe(Avp.from_bytes(ba))], [lambda: describe(Avp.from_bytes(bb)), lambda: describe(Avp.from_bytes(ba))]]
            for sched_, res, exits, expected in concur.explore_calls(make_jobs, studied, P, max_runs=6000):
                total += 1
                if mode == "encode" and expected != [[("ok", ba), ("ok", ba)], [("ok", bb)]]:
                    raise RuntimeError("sequential encode differs from the reference (should have been reported above)")
                if res != expected or exits:
                    ck.violation("concurrent_%s_differs" % mode, "two threads %s AVPs of kinds %s / %s at once: results %r, alone %r (thread exits %r), schedule %r" % (
                        "encoding" if mode == "encode" else "decoding", ka, kb, str(res)[:160], str(expected)[:160], exits, sched_[:40]),
                        {"mode": mode, "kinds": [ka, kb], "schedule": sched_})
                    break
    return total


def replay(path, seed):
    body = json.load(open(path))
    print("replay: re-running the quick tier (cases are regenerated from the seed %s)" % body.get("seed"))
    return run("quick", body.get("seed", seed))
