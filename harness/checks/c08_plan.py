PROFILE = {"weights": [2, 2, 1, 1, 1, 1, 14, 2, 3, 1], "act": {"tick": 2, "feed": 16, "connect": 3}, "single": True, "send": 2}
ASSUME = ["judged for typed commands received alone in a network read on a connection in service; precedence among simultaneously applicable result codes is not specified (any applicable code accepted)",
          "commands without a python class are outside C08's quantifier (their error answers carry no Result-Code AVP; recorded as an observation in DESIGN.md)"]


def plans(tier):
    th = tier == "thorough"
    mc = [dict(cfg="A", depth=5 if th else 4, maxtime=1, alpha=["cer", "req", "dwr"], pairs=False, faults=False, maxconn=2),
          dict(cfg="C", depth=5 if th else 4, maxtime=1, alpha=["cer", "cea", "req"], pairs=False, faults=False, maxconn=3)]
    sim = [dict(cfg="A", depth=12, maxtime=3, alpha=["cer", "dwr", "req", "ans", "ureq"], num=400 if th else 80, maxconn=3, pairs=False),
           dict(cfg="C", depth=12, maxtime=3, alpha=["cer", "cea", "req", "ureq", "dpr"], num=400 if th else 80, maxconn=4, pairs=False)]
    return mc, sim


def enum_plans(tier):
    th = tier == "thorough"
    from .c09_plan import two_ready_prefix
    return [# two applications with the same id for different peers: requests of every kind from both peers
            dict(cfg="TWOAPPS", depth=3 if th else 2, maxtime=0, alpha=["req1", "reqf"], faults=False, maxconn=2, prefix=two_ready_prefix()),
            # an application tries to send to a foreign realm, then a peer sends a request for that realm
            dict(cfg="A", depth=5 if th else 4, maxtime=0, alpha=["cerok", "req1", "reqf", "sendf"], faults=False, maxconn=1),
            # requests of the application in flight; the peer sends watchdog answers bearing their identifiers, and real answers
            dict(cfg="A", depth=5 if th else 4, maxtime=1, alpha=["cerok", "send1", "sdwa", "sans"], faults=False, maxconn=1)]
