PROFILE = {"weights": [1, 1, 4, 6, 1, 0, 3, 1, 0, 0], "act": {"tick": 16, "connect": 2, "feed": 8, "peer_close": 0.5, "peer_reset": 0.5, "frag": 4, "stall": 1}}
ASSUME = ["timer checks happen at least every wakeup seconds: 'at the next timer check' is judged with wakeup+1 s of slack; same-second events are unordered",
          "no capabilities-exchange messages are sent on a connection after its exchange succeeded (outside C11's alphabet)"]


def plans(tier):
    th = tier == "thorough"
    mc = [dict(cfg="A", depth=7 if th else 6, maxtime=7 if th else 6, alpha=["cer", "dwr", "dwa"], pairs=False, faults=False, maxconn=1),
          dict(cfg="B", depth=8 if th else 6, maxtime=8 if th else 6, alpha=["cea", "dwr", "dwa"], pairs=False, faults=False, maxconn=1)]
    if th:
        mc.append(dict(cfg="C", depth=7, maxtime=7, alpha=["cer", "cea", "dwa", "req"], pairs=False, faults=False, maxconn=2, timeout=2400))
    sim = [dict(cfg="A", depth=16, maxtime=14, alpha=["cer", "dwr", "dwa", "req"], num=400 if th else 60, maxconn=2, faults=False),
           dict(cfg="B", depth=16, maxtime=14, alpha=["cea", "dwr", "dwa", "req"], num=400 if th else 60, maxconn=2, faults=False)]
    return mc, sim

def enum_plans(tier):
    th = tier == "thorough"
    # every history over {tick, CER, DWA, DWR}: watchdog timing at every offset, node-level and per-peer timers
    from .c09_plan import _cer
    from .c09_plan import two_ready_prefix
    return [dict(cfg="A", depth=9 if th else 8, maxtime=9 if th else 8, alpha=["cerok", "dwa"], maxconn=1),
            # a DWA is a DWA whatever result it carries
            dict(cfg="A", depth=9 if th else 8, maxtime=9 if th else 8, alpha=["cerok", "dwae"], maxconn=1),
            # two ready connections: one keeps the node busy (traffic every second, select() never times out) while the other idles
            dict(cfg="HOLD2", depth=8 if th else 6, maxtime=8 if th else 6, alpha=["dwr"], maxconn=2, prefix=two_ready_prefix()),
            dict(cfg="W2", depth=11 if th else 10, maxtime=6, alpha=["dwr2"], maxconn=2, prefix=two_ready_prefix()),
            # the peer stops reading (and sending) with output still queued for it: the watchdog still runs its course
            dict(cfg="A", depth=11 if th else 9, maxtime=9 if th else 8, alpha=["stall", "req1"], maxconn=1,
                 prefix=[{"a": "connect"}, {"a": "feed", "c": 1, "ms": [_cer("p1.r1")]}]),
            dict(cfg="B", depth=8 if th else 7, maxtime=8 if th else 7, alpha=["ceaok", "dwa"], maxconn=1),
            # a message arriving in two network reads with silence in between: bytes count as traffic
            dict(cfg="A", depth=8 if th else 7, maxtime=7 if th else 6, alpha=["cerok", "frag"], maxconn=1)]
