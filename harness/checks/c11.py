"""C11 — watchdog (Mon_C11.tla)"""
from . import nodecommon as nc
from .c11_plan import PROFILE, plans, ASSUME, enum_plans


def run(tier, seed):
    mc, sim = plans(tier)
    ck = nc.run_property("C11", tier, seed, "Inv11", PROFILE, mc, sim, 1500 if tier == "thorough" else 240, ASSUME, enum_plan=enum_plans(tier))
    # ---- schedules: the timer check that finds a connection idle, under every schedule of the I/O loop, readers and writers ----
    from .. import schedscen, nodetrace as nt
    P = 2 if tier == "thorough" else 1
    runs, n = schedscen.explore_scenario(schedscen.c11_watchdog_due_while_other_connection_busy, P, max_runs=20000 if tier == "thorough" else 1500, whole=True)
    res = nt.mon_batch(runs[0][0]["params"], [r["steps"] for r, _ in runs], "c11_sched")
    for (r, sched), v in zip(runs, res):
        for x in v.get("C11", []):
            ck.violation(x["sig"] + ":schedule", "scenario c11_watchdog_due_while_other_connection_busy under schedule %r: %s" % (
                sched[:60], [nc.brief(e) for e in r["steps"][-2]["out"]]), {"sched_scenario": "c11_watchdog_due_while_other_connection_busy", "schedule": sched})
    ck.cov["schedules_explored"] = n
    ck.cov["schedule_preemption_bound"] = P
    ck.cov["schedule_distinct_outcomes"] = len(runs)
    return ck.finish()


def replay(path, seed):
    import json
    body = json.load(open(path))
    if "sched_scenario" in (body.get("replay") or {}):
        from .. import schedscen, explore, nodetrace as nt
        rp = body["replay"]
        r = getattr(schedscen, rp["sched_scenario"])(explore.Decisions(rp["schedule"]))
        v = nt.mon_batch(r["params"], [r["steps"]], "c11_sched_replay")[0].get("C11", [])
        print("replayed schedule: %s" % v)
        if v:
            print("VIOLATION property=C11 replay=%s" % path)
            return 1
        return 0
    return nc.replay_file("C11", path)
