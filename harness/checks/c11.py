"""C11 — watchdog (Mon_C11.tla)"""
from . import nodecommon as nc
from .c11_plan import PROFILE, plans, ASSUME, enum_plans


def run(tier, seed):
    mc, sim = plans(tier)
    ck = nc.run_property("C11", tier, seed, "Inv11", PROFILE, mc, sim, 1500 if tier == "thorough" else 240, ASSUME, enum_plan=enum_plans(tier))
    return ck.finish()


def replay(path, seed):
    return nc.replay_file("C11", path)
