PROFILE = {"weights": [2, 2, 2, 2, 1, 2, 4, 1, 0, 0], "act": {"tick": 10, "connect": 4, "feed": 10, "peer_close": 0.6, "peer_reset": 0.4, "connect_result": 6, "submit": 2, "stall": 0.8}, "stop": 2.5}
ASSUME = ["'ready peer' = capabilities exchange succeeded, not ended by DPR/DPA/close, and reported READY / READY_WAITING_DWA by the node when stop() is called",
          "stop() returning is judged with wakeup + 1 (I/O thread join) + 2 (statistics thread join) + 1 s of slack after nothing is left to wait for; connection workers poll with 5 s timeouts and are judged 6 s after stop() returned",
          "at the atomic grain pending output is flushed within the step in which the DPA arrives; races between the stopping thread, the I/O loop and the connection workers are explored separately (schedule exploration)"]


def plans(tier):
    th = tier == "thorough"
    mc = [dict(cfg="A", depth=9 if th else 8, maxtime=8 if th else 7, alpha=["cerok", "dpa", "dwr", "dwrdpa", "stop", "stopf"], pairs=False, faults=False, maxconn=2),
          dict(cfg="B", depth=8 if th else 7, maxtime=8 if th else 7, alpha=["ceaok", "dpa", "stop"], pairs=False, faults=True, maxconn=2)]
    if th:
        mc.append(dict(cfg="C", depth=8, maxtime=8, alpha=["cerok", "ceaok", "dpa", "dwr", "stop", "stopf"], pairs=False, faults=False, maxconn=3, timeout=2400))
    sim = [dict(cfg="A", depth=22, maxtime=16, alpha=["cerok", "dpa", "dwr", "dwrdpa", "req1", "stop", "stopf"], num=400 if th else 60, maxconn=3, faults=True, pairs=False),
           dict(cfg="C", depth=22, maxtime=16, alpha=["cerok", "ceaok", "dpa", "dpr", "dwa", "req1", "stall", "stop", "stopf"], num=400 if th else 60, maxconn=4, faults=True, pairs=False)]
    return mc, sim


def enum_plans(tier):
    th = tier == "thorough"
    return [dict(cfg="A", depth=9 if th else 7, maxtime=9 if th else 7, alpha=["cerok", "dpa", "stop"], maxconn=2 if th else 1),
            dict(cfg="A", depth=7 if th else 5, maxtime=5 if th else 3, alpha=["cerok", "dwrdpa", "stop"], maxconn=1),
            dict(cfg="B", depth=8 if th else 6, maxtime=8 if th else 6, alpha=["ceaok", "dpa", "stopf", "stop"], maxconn=1),
            # after a ready connection and stop(): the peer stops reading, sends its own DPR (crossing the node's), a watchdog request, its DPA
            dict(cfg="A", depth=6 if th else 5, maxtime=4 if th else 3, alpha=["stall", "dpr", "dwr", "dpa"], maxconn=1, prefix=stopping_prefix()),
            # a node listening on two addresses: every listening socket is closed when stop() returns
            dict(cfg="A2L", depth=5 if th else 4, maxtime=4 if th else 3, alpha=["cerok", "stop", "stopf"], maxconn=1),
            # persistent peers: reconnect deadlines inside the shutdown window (the first peer's exchange is over early, the second answers late)
            dict(cfg="C", depth=7 if th else 6, maxtime=5 if th else 4, alpha=["dpa"], faults=False, maxconn=3, prefix=two_peers_stopping_prefix())]


def stopping_prefix():
    from .. import nodetrace as nt
    return [{"a": "connect"}, {"a": "feed", "c": 1, "ms": [nt.M("CE", True, 1, 1, oh="p1.r1", auth=[4])]}, {"a": "stop", "force": False, "wait": 8}]


def two_peers_stopping_prefix():
    """cfg C: p1 persistent (reconnect after 1 s) is connected outbound, p2 inbound; both ready; then stop()"""
    from .. import nodetrace as nt
    return [{"a": "connect_result", "c": 1, "err": 0},
            {"a": "feed", "c": 1, "ms": [nt.M("CE", False, 2001, 1001, oh="p1.r1", rc=2001, auth=[4])]},
            {"a": "connect"}, {"a": "feed", "c": 2, "ms": [nt.M("CE", True, 1, 1, oh="p2.r1", auth=[4])]},
            {"a": "stop", "force": False, "wait": 8}]
