PROFILE = {"weights": [2, 2, 1, 1, 3, 1, 14, 1, 2, 0], "act": {"tick": 2, "feed": 12, "connect": 4, "submit": 10, "resubmit": 3, "peer_close": 3, "peer_reset": 3},
           "resubmit": True}
ASSUME = ["the application's handle on a request is the request object it was given; the harness remembers on which connection each request object arrived",
          "submissions are made from the environment while the node is quiescent (the schedule-dependent part is C14's)"]


def plans(tier):
    th = tier == "thorough"
    mc = [dict(cfg="B", depth=6 if th else 5, maxtime=2, alpha=["cea", "req", "dpr", "resub"], pairs=False, faults=True, maxconn=2),
          dict(cfg="HOLD2", depth=6 if th else 5, maxtime=1, alpha=["cer", "req", "resub"], pairs=False, faults=True, maxconn=2)]
    sim = [dict(cfg="HOLD2", depth=14, maxtime=4, alpha=["cer", "req", "dpr", "resub", "dwr"], num=400 if th else 80, maxconn=4, pairs=False),
           dict(cfg="B", depth=14, maxtime=6, alpha=["cea", "req", "dpr", "resub"], num=400 if th else 80, maxconn=4, pairs=False)]
    return mc, sim


def enum_plans(tier):
    th = tier == "thorough"
    # two connections, the same identifiers in flight on both, answers submitted in every order
    return [dict(cfg="HOLD2", depth=8 if th else 7, maxtime=0, alpha=["cerok", "req1"], faults=False, maxconn=2)]
