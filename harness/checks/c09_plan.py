PROFILE = {"weights": [2, 2, 1, 1, 3, 1, 14, 1, 2, 0], "act": {"tick": 2, "feed": 12, "connect": 4, "submit": 10, "resubmit": 3, "peer_close": 3, "peer_reset": 3},
           "resubmit": True}
ASSUME = ["the application's handle on a request is the request object it was given; the harness remembers on which connection each request object arrived",
          "submissions are made from the environment while the node is quiescent (the schedule-dependent part is C14's)"]


def plans(tier):
    th = tier == "thorough"
    mc = [dict(cfg="B", depth=6 if th else 5, maxtime=2, alpha=["cea", "req", "dpr", "resub"], pairs=False, faults=True, maxconn=2),
          dict(cfg="HOLD2", depth=6 if th else 5, maxtime=1, alpha=["cer", "req", "resub"], pairs=False, faults=True, maxconn=2)]
    sim = [dict(cfg="HOLD2", depth=14, maxtime=4, alpha=["cer", "req", "dpr", "resub", "dwr"], num=400 if th else 80, maxconn=4, pairs=False),
           dict(cfg="B", depth=14, maxtime=6, alpha=["cea", "req", "dpr", "resub"], num=400 if th else 80, maxconn=4, pairs=False)]
    return mc, sim


def _cer(host):
    from .. import nodetrace as nt
    return nt.M("CE", True, 1, 1, oh=host, auth=[4])


def two_ready_prefix():
    """two inbound connections, one per peer, both through their capabilities exchange"""
    return [{"a": "connect"}, {"a": "connect"}, {"a": "feed", "c": 1, "ms": [_cer("p1.r1")]}, {"a": "feed", "c": 2, "ms": [_cer("p2.r1")]}]


def held_idle_prefix():
    """one ready connection with a request held by the application, left idle until the node has sent its watchdog request"""
    from .. import nodetrace as nt
    return [{"a": "connect"}, {"a": "feed", "c": 1, "ms": [_cer("p1.r1")]},
            {"a": "feed", "c": 1, "ms": [nt.M("APP", True, 1, 1, app=4, oh="p1.r1", realm="r1")]}, {"a": "tick"}, {"a": "tick"}, {"a": "tick"}]


def two_connections_prefix():
    """one peer with two established connections; a request arrives on the second one and is held"""
    from .. import nodetrace as nt
    return [{"a": "connect"}, {"a": "connect"}, {"a": "feed", "c": 1, "ms": [_cer("p1.r1")]}, {"a": "feed", "c": 2, "ms": [_cer("p1.r1")]},
            {"a": "feed", "c": 2, "ms": [nt.M("APP", True, 1, 1, app=4, oh="p1.r1", realm="r1")]}]


def enum_plans(tier):
    th = tier == "thorough"
    # two ready connections of two peers; the same hop-by-hop id in flight on both (equal and different end-to-end ids);
    # answers submitted in every order, also twice
    return [dict(cfg="HOLD2", depth=6 if th else 5, maxtime=0, alpha=["req1", "req2"] + (["resub"] if True else []), faults=False, maxconn=2, prefix=two_ready_prefix()),
            # the handler raises, the node answers 5012 itself, the application submits an answer afterwards (also twice)
            dict(cfg="RAISE", depth=6 if th else 5, maxtime=0, alpha=["cerok", "req1", "req2", "resub"], faults=False, maxconn=1),
            # a request is held while the connection goes through watchdog and disconnect exchanges (in every order, with late
            # answers), then the application answers: the submission fails unless the connection is still in service
            dict(cfg="HOLD2", depth=5 if th else 4, maxtime=5, alpha=["dpr", "dwa", "dwr", "resub"], faults=False, maxconn=1, prefix=held_idle_prefix()),
            # the requesting connection is the peer's second one; it leaves service (DPR, close) before the answer is submitted
            dict(cfg="HOLD2", depth=4 if th else 3, maxtime=0, alpha=["dpr", "req2", "resub"], faults=True, maxconn=2, prefix=two_connections_prefix())]
