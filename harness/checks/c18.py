"""C18 — graceful shutdown: DPR to ready peers, drain, refuse newcomers, stop all threads (Mon_C18.tla)

Node.tla models Node.stop() as a thread of its own (StopStep: begin, wait loop, join of the I/O thread, join of the
statistics thread, closing of the listening sockets) next to the I/O loop's stop branch; the harness runs the real
stop() in a virtual thread of lowest priority.  Two schedule-quantified scenarios explore the races the atomic
grain cannot show: stop() against the I/O loop removing a connection, and the reader / writer / I/O loop around a
DPA that arrives while output is still queued.
"""
import json

from . import nodecommon as nc
from .c18_plan import PROFILE, plans, enum_plans, ASSUME

SCENARIOS = (("c18_stop_while_peer_closes", 2, 700, 3000), ("c18_dpa_with_output_pending", 2, 400, 3000))


def run(tier, seed):
    mc, sim = plans(tier)
    ck = nc.run_property("C18", tier, seed, "Inv18", PROFILE, mc, sim, 1500 if tier == "thorough" else 240, ASSUME, enum_plan=enum_plans(tier))
    from .. import schedscen, nodetrace as nt
    # ---- the free grain: after an atomic prefix (a ready connection, stop() called) every interleaving of the threads;
    #      nothing the node accepted for a connection may be dropped by a clean close (pinned F18c must violate)
    th = tier == "thorough"
    cer = nt.M("CE", True, 1, 1, oh="p1.r1", auth=[4])
    prefix = [{"a": "connect"}, {"a": "feed", "c": 1, "ms": [cer]}, {"a": "stop", "force": False, "wait": 8}]
    nc.free_phase(ck, "C18", [
        dict(cfg="A", depth=9 if th else 7, maxtime=2, alpha=["dwrdpa", "dwr", "dpa"], faults=False, maxconn=1, prefix=prefix,
             invs=["NoOutputLost", "TablesConsistent"], guard=dict(pinned=["F18c"], invs=["NoOutputLost"]),
             sim=300 if th else 60, sim_depth=22, sim_alpha=["dwrdpa", "dwr", "dpa", "req1"], sim_maxconn=2, sim_maxtime=14),
        dict(cfg="A", depth=10 if th else 8, maxtime=4, alpha=["cerok", "stop", "stopf"], faults=True, maxconn=1,
             invs=["NoOutputLost", "TablesConsistent"], sim=300 if th else 60, sim_depth=24, sim_alpha=["cerok", "dpa", "dwr", "stop", "stopf"], sim_maxconn=2, sim_maxtime=14)],
        seed, monitors=())
    # ---- liveness: MC_Node!LiveSpec - after stop() every weakly fair interleaving of thread steps (time passes only when no
    #      thread can run), with connections lost and DPAs arriving at any point, leads to stop() returning (StopReturns), and it
    #      returns with the I/O thread ended and every connection socket closed (ClosedWhenStopped).  No depth bound.
    from .c09_plan import two_ready_prefix
    one = [{"a": "connect"}, {"a": "feed", "c": 1, "ms": [cer]}]
    live_states = 0
    for cfgname, pre, mt in (("A", one, 14), ("HOLD2", two_ready_prefix(), 14), ("T1", one, 16)) + ((("TS2", two_ready_prefix(), 18),) if th else ()):
        r = nc.live_run("c18_live_" + cfgname, cfgname, mt, ["dpa"], True, 2, pre, timeout=1200)
        if r["violated"] or not r["complete"]:
            raise nc.tlc.TlcError("MC_Node!LiveSpec (%s): %s" % (cfgname, r["violated"] or "not exhausted within its time limit"))
        live_states += r["distinct"]
    g = nc.live_run("c18_live_guard", "A", 3, ["dpa"], True, 2, one, timeout=600)     # too little time for the wait loop: must violate
    if "StopReturns" not in g["violated"]:
        raise nc.tlc.TlcError("vacuity guard failed: LiveSpec with MaxTime 3 does not violate StopReturns (%r)" % (g["violated"],))
    ck.cov["liveness_states"] = live_states
    ck.cov["liveness_property"] = "StopReturns (<> stop done) under WF of the step relation, ClosedWhenStopped; guard (MaxTime 3) violates"
    total = 0
    for name, P, quick_runs, thorough_runs in SCENARIOS:
        bound = P + 1 if tier == "thorough" else P
        runs, n = schedscen.explore_scenario(getattr(schedscen, name), bound, max_runs=thorough_runs if tier == "thorough" else quick_runs, whole=True)
        total += n
        res = nt.mon_batch(runs[0][0]["params"], [r["steps"] for r, _ in runs], "c18_sched_" + name)
        for (r, sched), v in zip(runs, res):
            for x in v.get("C18", []):
                ck.violation(x["sig"] + ":schedule:" + name, "scenario %s under schedule %r: %s" % (
                    name, sched[:40], [nc.brief(e) for st in r["steps"][-16:] for e in st["out"]][:14]), {"sched_scenario": name, "schedule": sched})
            if r["exits"]:
                ck.note("thread exits in a schedule scenario (judged by C14): %r" % (r["exits"][:2],))
        ck.cov["schedules_%s" % name] = n
        ck.cov["schedule_outcomes_%s" % name] = len(runs)
    # stop() at the instant a persistent peer's reconnect is due: line-level schedules of _reconnect_peers / _connect_to_peer / stop;
    # oracle from the statement ("dials no peers while stopping"): no connect() after stop() has marked the node as stopping
    from .. import explore
    nrd = 0
    for res, pol in explore.explore(schedscen.c18_stop_while_reconnect_due, 3 if tier == "thorough" else 2, max_runs=20000):
        nrd += 1
        sched_ = [x[1] for x in pol.records]
        for sig in res["oracle"]:
            ck.violation(sig + ":schedule", "scenario c18_stop_while_reconnect_due under schedule %r: connect() after stop() had set the stopping flag" % (sched_[:60],),
                         {"sched_scenario": "c18_stop_while_reconnect_due", "schedule": sched_, "oracle": True})
        if not res["marker_seen"]:
            raise RuntimeError("c18_stop_while_reconnect_due: the stopping flag was never seen to be set (scenario no longer binds)")
    total += nrd
    ck.cov["schedules_c18_stop_while_reconnect_due"] = nrd
    ck.cov["schedules_explored"] = total
    ck.cov["schedule_preemption_bound"] = 3 if tier == "thorough" else 2
    return ck.finish()


def replay(path, seed):
    body = json.load(open(path))
    rp = body.get("replay") or {}
    if "sched_scenario" in rp:
        from .. import schedscen, explore, nodetrace as nt
        r = getattr(schedscen, rp["sched_scenario"])(explore.Decisions(rp["schedule"]))
        if rp.get("oracle"):
            print("replayed schedule: %s" % r["oracle"])
            if any(o + ":schedule" == body["sig"] for o in r["oracle"]):
                print("VIOLATION property=C18 replay=%s" % path)
                return 1
            return 0
        v = nt.mon_batch(r["params"], [r["steps"]], "c18_sched_replay")[0].get("C18", [])
        print("replayed schedule: %s" % v)
        if v:
            print("VIOLATION property=C18 replay=%s" % path)
            return 1
        return 0
    return nc.replay_file("C18", path)
