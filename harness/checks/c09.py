"""C09 — application answers go only to the requesting connection, at most once (Mon_C09.tla)"""
from . import nodecommon as nc
from .c09_plan import PROFILE, plans, ASSUME, enum_plans


def run(tier, seed):
    mc, sim = plans(tier)
    ck = nc.run_property("C09", tier, seed, "Inv09", PROFILE, mc, sim, 1500 if tier == "thorough" else 240, ASSUME, enum_plan=enum_plans(tier))
    # ---- schedules: one action under every thread schedule within the preemption bound -------------
    from .. import schedscen, nodetrace as nt
    P = 3 if tier == "thorough" else 2
    runs, n = schedscen.explore_scenario(schedscen.c09_concurrent_double_submit, P)
    res = nt.mon_batch(runs[0][0]["params"], [r["steps"] for r, _ in runs], "c09_sched")
    for (r, sched), v in zip(runs, res):
        for x in v.get("C09", []):
            ck.violation(x["sig"] + ":schedule", "scenario c09_concurrent_double_submit under schedule %r: %s" % (sched, [nc.brief(e) for e in r["steps"][-1]["out"]]),
                         {"sched_scenario": "c09_concurrent_double_submit", "schedule": sched})
        if r["exits"]:
            ck.note("thread exits in a schedule scenario (judged by C14): %r" % (r["exits"][:2],))
    ck.cov["schedules_explored"] = n
    ck.cov["schedule_preemption_bound"] = P
    ck.cov["schedule_distinct_outcomes"] = len(runs)
    return ck.finish()


def replay(path, seed):
    import json
    body = json.load(open(path))
    if "sched_scenario" in (body.get("replay") or {}):
        from .. import schedscen, explore, nodetrace as nt
        rp = body["replay"]
        r = getattr(schedscen, rp["sched_scenario"])(explore.Decisions(rp["schedule"]))
        v = nt.mon_batch(r["params"], [r["steps"]], "c09_sched_replay")[0].get("C09", [])
        print("replayed schedule: %s" % v)
        if v:
            print("VIOLATION property=C09 replay=%s" % path)
            return 1
        return 0
    return nc.replay_file("C09", path)
