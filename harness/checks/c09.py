"""C09 — application answers go only to the requesting connection, at most once (Mon_C09.tla)"""
from . import nodecommon as nc
from .c09_plan import PROFILE, plans, ASSUME, enum_plans


def run(tier, seed):
    mc, sim = plans(tier)
    ck = nc.run_property("C09", tier, seed, "Inv09", PROFILE, mc, sim, 1500 if tier == "thorough" else 240, ASSUME, enum_plan=enum_plans(tier))
    return ck.finish()


def replay(path, seed):
    return nc.replay_file("C09", path)
