"""C02 — message codec is byte-exact; class dispatch and AVP search are correct.

Model : spec/Wire.tla (EncMsg, HdrBytes, Find) evaluated by TLC for every generated case.
Code  : Message.from_bytes(reference octets) — generic (plain_msg) and typed; header fields, AVP tree, class,
        as_bytes(), find_avps() over several distinct paths on one freshly decoded message (cache).
"""
from __future__ import annotations

import json
import random

from .. import codec, tlc
from ..common import Check
from diameter.message import Message, MessageHeader, UndefinedMessage, DefinedMessage, AvpGrouped, Avp
from diameter.message import commands as cmds
from diameter.message.commands import all_commands


def expected_class(code, is_request):
    cls = all_commands.get(code)
    if cls is None:
        return UndefinedMessage
    want = cls.__name__ + ("Request" if is_request else "Answer")
    for sub in cls.__subclasses__():
        if sub.__name__ == want:
            return sub
    return cls


def hdr_spec(version, flags, code, app, hbh, e2e):
    return {"version": version, "flags": flags, "code": [code >> 16, code & 0xFFFF], "app": codec.limbs(app, 2),
            "hbh": codec.limbs(hbh, 2), "e2e": codec.limbs(e2e, 2)}


def tree_of(avps):
    """decoded AVP list -> tree spec for Wire!Find, plus a map index-path -> Avp object"""
    idx = {}

    def walk(lst, prefix):
        out = []
        for i, a in enumerate(lst, 1):
            p = prefix + (i,)
            idx[p] = a
            g = isinstance(a, AvpGrouped)
            kids = walk(a.value, p) if g else []
            out.append({"key": codec.limbs(a.code, 2) + codec.limbs(a.vendor_id, 2), "g": g, "kids": kids})
        return out
    return walk(avps, ()), idx


def same_tree(decoded, specs, path="") -> list:
    """compare the decoded AVP list with the specification (order, code, vendor, flags, payload, recursively)"""
    out = []
    if len(decoded) != len(specs):
        return ["%s: %d AVPs decoded, %d on the wire" % (path or "/", len(decoded), len(specs))]
    for i, (a, s) in enumerate(zip(decoded, specs)):
        code = (s["code"][0] << 16) | s["code"][1]
        vendor = (s["vendor"][0] << 16) | s["vendor"][1]
        flags = (0x80 if vendor else 0) | (0x40 if s["M"] else 0) | (0x20 if s["P"] else 0)
        if a.code != code or a.vendor_id != vendor or a.flags != flags:
            out.append("%s/%d: code/vendor/flags %s/%s/%#x, wire %s/%s/%#x" % (path, i, a.code, a.vendor_id, a.flags, code, vendor, flags))
        if s["val"]["t"] == "group":
            if not isinstance(a, AvpGrouped):
                out.append("%s/%d: grouped AVP decoded as %s" % (path, i, type(a).__name__))
            else:
                out += same_tree(a.value, s["val"]["avps"], "%s/%d" % (path, i))
    return out


def gen_cases(tier, seed):
    rng = random.Random(seed)
    entries = codec.dictionary()
    groups = [e for e in entries if codec.kind_of(e[2]) == "group"]
    codes = sorted(all_commands)
    b8 = [0, 1, 127, 128, 255]
    b32 = [0, 1, 0x7FFFFFFF, 0x80000000, 0xFFFFFFFF, 0xFFFF, 0x10000]
    cases = []

    def avps(n, depth):
        out = []
        for _ in range(n):
            e = rng.choice(groups) if rng.random() < 0.25 else rng.choice(entries)
            out.append(codec.random_avp(rng, entries, max_depth=depth, code_vendor_entry=e))
        if rng.random() < 0.2:
            # a vendor without a dictionary of its own using a code the base dictionary defines (grouped / text there): opaque
            code = rng.choice([456, 1, 443, 264])
            pv, vs = codec.v_bytes(bytes(rng.getrandbits(8) for _ in range(rng.choice([0, 5, 12]))))
            out.append(({"code": code, "vendor": 99999, "kind": "bytes", "value": pv, "M": False, "P": False, "raw": True},
                        {"code": codec.limbs(code, 2), "vendor": codec.limbs(99999, 2), "M": False, "P": False, "val": vs}))
        if out and rng.random() < 0.5:            # repeated AVPs
            out.append(out[rng.randrange(len(out))])
        return out

    # every registered code x R bit (+ unknown codes); header fields from the boundary sets
    for code in codes + [9999991, 0xFFFFFF, 0]:
        for R in (0, 1):
            reps = 12 if tier == "thorough" else 1
            for _ in range(reps):
                flags = (0x80 if R else 0) | rng.choice([0x00, 0x40, 0x20, 0x10, 0x70, 0x0F])
                h = hdr_spec(rng.choice(b8), flags, code, rng.choice(b32), rng.choice(b32), rng.choice(b32))
                a = avps(rng.choice([0, 1, 2, 5, 12]), 3)
                cases.append({"hdr": h, "avps": a, "tag": "codes"})
    # header boundary sweep on a few codes
    for code in (272, 257, 9999991):
        for v in b8:
            for f in (0x00, 0x80, 0xC0, 0xF0, 0xFF, 0x40):
                cases.append({"hdr": hdr_spec(v, f, code, rng.choice(b32), rng.choice(b32), rng.choice(b32)), "avps": avps(1, 1), "tag": "header"})
        for x in b32:
            cases.append({"hdr": hdr_spec(1, 0x80, code, x, x ^ 0xFFFF, (x + 1) & 0xFFFFFFFF), "avps": [], "tag": "header"})
    # long AVP sequences, deep nesting, big messages
    for _ in range(3000 if tier == "thorough" else 40):
        cases.append({"hdr": hdr_spec(1, rng.choice([0x80, 0x00, 0xC0]), rng.choice(codes + [9999991]), 4, rng.getrandbits(32), rng.getrandbits(32)),
                      "avps": avps(rng.randint(10, 40), 6), "tag": "long"})
    ostr = [e for e in entries if codec.kind_of(e[2]) == "bytes"][0]
    for n in ([8000, 30000, 65000] if tier == "thorough" else [8000]):
        pv, vs = codec.v_bytes(bytes(rng.getrandbits(8) for _ in range(n)))
        big = ({"code": ostr[0], "vendor": ostr[1], "kind": "bytes", "value": pv, "M": None, "P": None},
               {"code": codec.limbs(ostr[0], 2), "vendor": codec.limbs(ostr[1], 2), "M": bool(ostr[2].get("mandatory")), "P": False, "val": vs})
        cases.append({"hdr": hdr_spec(1, 0x80, 272, 4, 1, 2), "avps": avps(3, 2) + [big], "tag": "big"})
    return cases


def gen_paths(rng, tree, n=6):
    """distinct search paths of length 1..4 whose non-final elements are grouped AVPs of the tree (or absent keys)"""
    paths = []

    def descend(nodes, prefix, depth):
        for nd in nodes:
            p = prefix + [nd["key"]]
            paths.append(p)
            if nd["g"] and depth < 4:
                descend(nd["kids"], p, depth + 1)
    descend(tree, [], 1)
    uniq = []
    for p in paths:
        if p not in uniq and len(p) <= 4:
            uniq.append(p)
    rng.shuffle(uniq)
    out = uniq[:n]
    out.append([[0, 9, 0, 0]])                              # absent key
    if uniq:
        k = list(uniq[0][-1])
        k[3] = (k[3] + 1) % 65536                            # same code under another vendor
        out.append(uniq[0][:-1] + [k])
    return out


def run(tier, seed):
    ck = Check("C02", tier, seed, "exploration")
    ck.assumptions += ["the AVP sequence is compared for generically decoded messages (plain_msg=True and commands without a python class); typed classes are documented to regenerate their AVP list from attributes",
                       "search paths have grouped AVPs in every non-final position (the 'cannot go further' behaviour is outside the quantifier)",
                       "the reference model Wire.tla is written from RFC 6733 and is itself trusted"]
    rng = random.Random(seed + 7)
    cases = gen_cases(tier, seed)
    outs = []
    specs = [{"op": "msg", "hdr": c["hdr"], "avps": [a[1] for a in c["avps"]]} for c in cases]
    B = 400
    for off in range(0, len(specs), B):
        outs += tlc.evaluate("WireEval", specs[off:off + B], "c02_eval_%d" % off, timeout=3000)
    find_cases = []
    find_ctx = []
    edit_cases = []
    edit_ctx = []
    for ci, (c, o) in enumerate(zip(cases, outs)):
        exp = bytes(o["bytes"])
        h = c["hdr"]
        code = (h["code"][0] << 16) | h["code"][1]
        R = bool(h["flags"] & 0x80)
        rp = {"hdr": h, "navps": len(c["avps"]), "case": ci, "bytes": exp.hex()[:400]}
        want = {"version": h["version"], "command_flags": h["flags"], "command_code": code, "length": len(exp),
                "application_id": (h["app"][0] << 16) | h["app"][1], "hop_by_hop_identifier": (h["hbh"][0] << 16) | h["hbh"][1],
                "end_to_end_identifier": (h["e2e"][0] << 16) | h["e2e"][1]}
        # encoder: a generic message built from the parts encodes to the reference octets
        try:
            m0 = Message(MessageHeader(h["version"], 0, h["flags"], code, want["application_id"], want["hop_by_hop_identifier"], want["end_to_end_identifier"]),
                         [codec.build(a[0]) for a in c["avps"]])
            enc = m0.as_bytes()
            if enc != exp:
                ck.violation("encode_differs", "Message.as_bytes(): %s..., reference %s..." % (enc.hex()[:80], exp.hex()[:80]), rp)
            # encoding is a function of the message: a second call, and a call after an encoding attempt that failed part-way
            # through the AVP list (an unencodable AVP inserted, then taken out again), give the same octets
            elif m0.as_bytes() != exp:
                ck.violation("encode_differs:second_call", "Message.as_bytes() called twice gives different octets", rp)
            else:
                k = len(m0.avps) // 2
                m0.avps.insert(k, Avp(code=99999, vendor_id=0, payload="not bytes"))
                try:
                    m0.as_bytes()
                    failed = False
                except Exception:
                    failed = True
                m0.avps.pop(k)
                again = m0.as_bytes()
                if again != exp:
                    ck.violation("encode_differs:after_failed_encode", "Message.as_bytes() after an attempt that %s (unencodable AVP at position %d, removed again): %s..., reference %s..." % (
                        "raised" if failed else "did not raise", k, again.hex()[:80], exp.hex()[:80]), rp)
        except Exception as e:
            ck.violation("encode_raised:%s" % type(e).__name__, "building/encoding a message raised %r" % (e,), rp)
        # generic decoding
        try:
            g = Message.from_bytes(exp, plain_msg=True)
        except Exception as e:
            ck.violation("decode_raised:%s" % type(e).__name__, "Message.from_bytes(plain_msg=True) raised %r" % (e,), rp)
            continue
        got = {k: getattr(g.header, k) for k in want}
        if got != want:
            ck.violation("header_differs:generic", "decoded header %r, wire %r" % (got, want), rp)
        diff = same_tree(g.avps, [a[1] for a in c["avps"]])
        if diff:
            ck.violation("avp_tree_differs", "decoded AVP tree differs from the wire: %s" % diff[:3], rp)
        try:
            if g.as_bytes() != exp:
                ck.violation("reencode_differs", "re-encoding the generically decoded message does not reproduce the input", rp)
        except Exception as e:
            ck.violation("reencode_raised:%s" % type(e).__name__, "re-encoding the generically decoded message raised %r" % (e,), rp)
        # a generically decoded message edited in place (first AVP moved to the end, identifiers changed) encodes to the
        # reference octets of the edited message
        if len(c["avps"]) >= 2 and ci % 2 == 0:
            try:
                g2 = Message.from_bytes(exp, plain_msg=True)
                g2.as_bytes()
                first = g2.avps.pop(0)
                g2.avps.append(first)
                g2.header.hop_by_hop_identifier = (want["hop_by_hop_identifier"] + 1) & 0xFFFFFFFF
                edit_cases.append({"op": "msg", "hdr": dict(h, hbh=codec.limbs(g2.header.hop_by_hop_identifier, 2)), "avps": [a[1] for a in c["avps"][1:]] + [c["avps"][0][1]]})
                edit_ctx.append((g2.as_bytes(), rp))
            except Exception as e:
                ck.violation("edit_raised:%s" % type(e).__name__, "editing / re-encoding a generically decoded message raised %r" % (e,), rp)
        # typed decoding: class and header
        try:
            t = Message.from_bytes(exp)
        except Exception as e:
            ck.violation("typed_decode_raised:%s" % type(e).__name__, "Message.from_bytes raised %r on a well-formed message" % (e,), rp)
            continue
        wc = expected_class(code, R)
        if type(t) is not wc:
            ck.violation("class_dispatch", "command %d R=%d decoded as %s, registered class is %s" % (code, R, type(t).__name__, wc.__name__), rp)
        gott = {k: getattr(t.header, k) for k in want}
        if gott != want:
            bad = {k: (gott[k], want[k]) for k in want if gott[k] != want[k]}
            ck.violation("header_differs:typed:" + "+".join(sorted(bad)), "typed decoding (%s) changed header fields %r (decoded, wire)" % (type(t).__name__, bad), rp)
        try:
            if not isinstance(t, DefinedMessage) and t.as_bytes() != exp:
                ck.violation("reencode_differs:untyped_class", "re-encoding %s does not reproduce the input" % type(t).__name__, rp)
        except Exception as e:
            ck.violation("reencode_raised:%s" % type(e).__name__, "re-encoding %s raised %r" % (type(t).__name__, e), rp)
        # find_avps on the freshly decoded generic message
        if c["avps"] and (ci % 3 == 0 or c["tag"] == "long"):
            try:
                tree, idx = tree_of(g.avps)
            except Exception as e:      # a well-formed message whose decoded tree cannot even be walked
                ck.violation("avp_tree_walk_raised:%s" % type(e).__name__, "reading the AVP tree of a well-formed message raised %r" % (e,), rp)
                continue
            paths = gen_paths(rng, tree)
            find_cases.append({"op": "find", "tree": tree, "paths": paths})
            find_ctx.append((g, idx, paths, rp))
    fouts = []
    for off in range(0, len(find_cases), 200):
        fouts += tlc.evaluate("WireEval", find_cases[off:off + 200], "c02_find_%d" % off, timeout=3000)
    nfind = 0
    for (g, idx, paths, rp), o in zip(find_ctx, fouts):
        rev = {id(a): p for p, a in idx.items()}
        for rnd in range(2):                          # second round hits the cache
            for path, exp_paths in zip(paths, o["paths"]):
                nfind += 1
                args = [(((k[0] << 16) | k[1]), ((k[2] << 16) | k[3])) for k in path]
                res = g.find_avps(*args)
                gotp = [list(rev.get(id(a), (-1,))) for a in res]
                if gotp != [list(p) for p in exp_paths]:
                    ck.violation("find_avps_differs" + (":cached" if rnd else ""), "find_avps%r returned tree positions %r, reference %r" % (tuple(args), gotp, exp_paths), dict(rp, path=args))
    eouts = []
    for off in range(0, len(edit_cases), B):
        eouts += tlc.evaluate("WireEval", edit_cases[off:off + B], "c02_edit_%d" % off, timeout=3000)
    for (got_b, rp), o in zip(edit_ctx, eouts):
        if got_b != bytes(o["bytes"]):
            ck.violation("encode_differs:after_edit", "a generically decoded message edited in place (first AVP moved to the end, hop-by-hop id + 1) encodes to %s..., reference %s..." % (
                got_b.hex()[:80], bytes(o["bytes"]).hex()[:80]), rp)
    ck.cov["edited_messages"] = len(edit_cases)
    # run-time registered command
    class VerifSpecial(DefinedMessage):
        code = 8123456
        name = "Verif-Special"

        def __post_init__(self):
            self.header.command_code = self.code
            super().__post_init__()
    raw = bytes(tlc.evaluate("WireEval", [{"op": "msg", "hdr": hdr_spec(1, 0x80, 8123456, 0, 1, 2), "avps": []}], "c02_reg")[0]["bytes"])
    before = type(Message.from_bytes(raw))
    cmds.register(VerifSpecial)
    after = type(Message.from_bytes(raw))
    if before is not UndefinedMessage or after is not VerifSpecial:
        ck.violation("runtime_registered_command", "command registered at run time: decoded as %s before and %s after registration" % (before.__name__, after.__name__), {"code": 8123456})
    all_commands.pop(8123456, None)
    # concurrent callers (the node's reader, writer and application threads share the codec): every schedule with one
    # preemption (two in the thorough tier) at source-line grain; each caller must get what it gets when running alone
    from .. import concur
    from diameter.message.packer import Packer, Unpacker
    from diameter.message import _base as basemod
    studied = concur.studied_functions([Message, MessageHeader, Packer, Unpacker, basemod._traverse_avp_tree])
    smalls = [(c, bytes(o["bytes"])) for c, o in zip(cases, outs) if 2 <= len(c["avps"]) <= 5 and len(o["bytes"]) < 600][:4]
    nconc = 0
    for i in range(0, len(smalls) - 1, 2):
        (ca, ba), (cb, bb) = smalls[i], smalls[i + 1]

        def mk(c):
            h = c["hdr"]
            return Message(MessageHeader(h["version"], 0, h["flags"], (h["code"][0] << 16) | h["code"][1], (h["app"][0] << 16) | h["app"][1],
                                         (h["hbh"][0] << 16) | h["hbh"][1], (h["e2e"][0] << 16) | h["e2e"][1]), [codec.build(a[0]) for a in c["avps"]])

        def desc(b):
            m = Message.from_bytes(b)
            first = (m.avps[0].code, m.avps[0].vendor_id)
            return (type(m).__name__, m.header.command_code, m.header.command_flags, len(m.avps), len(m.find_avps(first)), m.as_bytes() == b if not isinstance(m, DefinedMessage) else True)
        for mode in ("encode", "decode"):
            def make_jobs():
                if mode == "encode":
                    a, b = mk(ca), mk(cb)
                    return [[a.as_bytes, a.as_bytes], [b.as_bytes]]
                return [[lambda: desc(ba)], [lambda: desc(bb), lambda: desc(ba)]]
            for sched_, res, exits, expected in concur.explore_calls(make_jobs, studied, 2 if tier == "thorough" else 1, max_runs=6000):
                nconc += 1
                if res != expected or exits:
                    ck.violation("concurrent_%s_differs" % mode, "two threads %s messages at once: results %r, alone %r (thread exits %r), schedule %r" % (
                        "encoding" if mode == "encode" else "decoding", str(res)[:160], str(expected)[:160], exits, sched_[:40]), {"mode": mode, "schedule": sched_})
                    break
    # two threads walking the (lazily decoded) grouped AVPs of two different messages
    from diameter.message import constants as K

    def gmsg(n, k):
        kids = [Avp.new(K.AVP_RATING_GROUP, value=100 * n + i) for i in range(k)]
        sub = Avp.new(K.AVP_SUBSCRIPTION_ID, value=[Avp.new(K.AVP_SUBSCRIPTION_ID_TYPE, value=n), Avp.new(K.AVP_SUBSCRIPTION_ID_DATA, value="user%d" % n)])
        return Message(MessageHeader(1, 0, 0x80, 272, 4, n, n), [Avp.new(K.AVP_MULTIPLE_SERVICES_CREDIT_CONTROL, value=kids), sub]).as_bytes()

    def walk_desc(b):
        def w(avps):
            return [(a.code, w(a.value) if isinstance(a, AvpGrouped) else a.payload.hex()) for a in avps]
        return w(Message.from_bytes(b, plain_msg=True).avps)
    b1, b2 = gmsg(1, 4), gmsg(2, 3)
    studied_g = concur.studied_functions([Avp, AvpGrouped, Unpacker])
    for sched_, res, exits, expected in concur.explore_calls(lambda: [[lambda: walk_desc(b1)], [lambda: walk_desc(b2), lambda: walk_desc(b1)]], studied_g,
                                                             2 if tier == "thorough" else 1, max_runs=6000):
        nconc += 1
        if res != expected or exits:
            ck.violation("concurrent_grouped_walk_differs", "two threads reading grouped AVP values of different messages at once: results %r, alone %r (thread exits %r), schedule %r" % (
                str(res)[:200], str(expected)[:200], exits, sched_[:40]), {"mode": "walk", "schedule": sched_})
            break
    ck.cov["concurrent_schedules"] = nconc
    ck.cov["evaluations"] = len(cases) + nfind
    ck.cov["distinct_nontrivial"] = len({json.dumps([c["hdr"], [a[1] for a in c["avps"]]], sort_keys=True) for c in cases})
    ck.cov["rule"] = "one evaluation = one message (header x AVP sequence) encoded, decoded generically and typed against the TLA+ reference, or one find_avps call; distinct by reference specification"
    ck.cov["registered_codes"] = len(all_commands)
    ck.cov["find_calls"] = nfind
    ck.cov["largest_message_bytes"] = max(len(o["bytes"]) for o in outs)
    for c, o in list(zip(cases, outs))[:: max(1, len(cases) // 3)][:3]:
        ck.sample({"hdr": c["hdr"], "avps": len(c["avps"]), "bytes": bytes(o["bytes"]).hex()[:120]})
    return ck.finish()


def replay(path, seed):
    body = json.load(open(path))
    print("replay: re-running the quick tier with the seed of the finding (%s)" % body.get("seed"))
    return run("quick", body.get("seed", seed))
