"""C06 — capabilities exchange gates all traffic and yields the specified outcome (Mon_C06.tla)."""
from . import nodecommon as nc

PROFILE = {"weights": [4, 4, 2, 1, 1, 1, 5, 2, 1, 1], "act": {"tick": 5, "connect": 4, "feed": 12, "garbage": 0.5, "frag": 1}, "send": 3}


def plans(tier):
    th = tier == "thorough"
    mc = [dict(cfg="A", depth=5 if th else 4, maxtime=3, alpha=["cer", "dwr", "req", "ans"], pairs=True, faults=False, maxconn=2),
          dict(cfg="B", depth=6 if th else 5, maxtime=4, alpha=["cea", "cerout", "dwr", "req", "dpa"], pairs=True, faults=True, maxconn=2)]
    if th:
        mc.append(dict(cfg="C", depth=5, maxtime=3, alpha=["cer", "cea", "req", "dwa", "dpr"], pairs=True, faults=True, maxconn=3, timeout=2400))
    sim = [dict(cfg="B", depth=10, maxtime=8, alpha=["cea", "cerout", "dwr"], num=200 if th else 40, maxconn=4),
           dict(cfg="A", depth=8, maxtime=6, alpha=["cer", "dwr", "dwa", "dpr", "dpa", "req", "ans", "ureq"], num=400 if th else 60, maxconn=3),
           dict(cfg="C", depth=10, maxtime=8, alpha=["cer", "cea", "dwr", "dwa", "dpr", "dpa", "req", "ans"], num=400 if th else 60, maxconn=4)]
    return mc, sim


def enum_plans(tier):
    th = tier == "thorough"
    # every history of the timing alphabet (ticks, connect results, one good CEA / CER): timeouts at every offset
    return [dict(cfg="B", depth=7 if th else 6, maxtime=7 if th else 6, alpha=["ceaok"], maxconn=2),
            dict(cfg="B", depth=5, maxtime=3, alpha=["cerout", "ceaok", "dwr"], maxconn=1),   # a CER where the CEA is expected, then traffic
            dict(cfg="B", depth=5, maxtime=2, alpha=["ceaok", "send1", "sendf"], maxconn=2),       # routing before / after the exchange
            dict(cfg="A", depth=6 if th else 5, maxtime=5, alpha=["cerok"], maxconn=1),
            # an application registered while the node runs: capabilities exchanges before and after offer / share its id or not
            dict(cfg="LATE", depth=6 if th else 5, maxtime=1, alpha=["cerok", "cer2", "addapp"], maxconn=3)]


def run(tier, seed):
    mc, sim = plans(tier)
    ck = nc.run_property("C06", tier, seed, "Inv06", PROFILE, mc, sim, 1500 if tier == "thorough" else 240,
                         ["the CE timeout is read as: no bytes received for longer than the timeout since establishment (the code restarts it on any received bytes)",
                          "an outbound connection never claims to be a different configured peer; a malformed CEA (no Origin-Host) and a second CER are not judged"],
                         enum_plan=enum_plans(tier))
    # a CER that must be rejected and the connection closed, under every schedule of reader, writer and I/O loop
    nc.sched_phase(ck, "C06", "c06_cer_rejected_under_every_schedule", 3 if tier == "thorough" else 2)
    return ck.finish()


def replay(path, seed):
    return nc.replay_file("C06", path)
