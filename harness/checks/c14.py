"""C14 — no fault or handler outcome stops service; workers survive, peers are served (Mon_C14.tla)

Node.tla models the ThreadingApplication (request queue, thread slots, worker threads, result queue, the two
consumer threads) next to the basic application; faults are environment actions (orderly close, reset, send error,
connect failure, partial frames, garbage).  On the model, TLC checks Serviceable in every reachable state (consumer
threads alive; every slot given back once nothing is in flight) and the C14 monitor; the pinned pre-fix behaviours
(F14a/b/c) must violate them.  On the code, fault-heavy histories end with the reconnect-and-serve probe judged by
the monitor, and the model must predict every step (conformance).
"""
import json
import random

from . import nodecommon as nc
from .. import nodetrace as nt, tlc
from ..common import fan_out
from ..world import peer_cfg, app_cfg

PROFILE = {"weights": [2, 2, 1, 1, 1, 1, 10, 1, 1, 0],
           "act": {"tick": 6, "connect": 4, "feed": 12, "peer_close": 2, "peer_reset": 2, "send_error": 2, "frag": 3, "garbage": 1, "connect_result": 6, "submit": 2}}
ASSUME = ["'as on a fresh node' = by handler kind: answer -> 2001 in the same step, slow -> 2001 three seconds later, raise -> 5012, no result -> delivered and not answered",
          "the probe starts after every earlier connection was closed and the node was left alone for 9 s (longer than the 5 s slot wait + 3 s handler), so that only capacity consumed for good is judged",
          "fault kinds: orderly close, reset (recv error), send error (EPIPE), connect failure, partial frames, undecodable bytes; handler outcomes: answer, none, exception, slow (3 s)"]


def plans(tier):
    th = tier == "thorough"
    al = ["cerok", "req1", "req2", "senderr"]
    mc = [dict(cfg="T1", depth=7 if th else 6, maxtime=2, alpha=al, pairs=False, faults=True, maxconn=2),
          dict(cfg="TS", depth=8 if th else 7, maxtime=9 if th else 7, alpha=["cerok", "req1", "req2"], pairs=False, faults=True, maxconn=2),
          dict(cfg="TN", depth=7 if th else 6, maxtime=6, alpha=["cerok", "req1", "req2"], pairs=False, faults=True, maxconn=2),
          dict(cfg="TR", depth=7 if th else 6, maxtime=2, alpha=al, pairs=False, faults=True, maxconn=2)]
    if th:
        mc.append(dict(cfg="TS2", depth=8, maxtime=8, alpha=["cerok", "req1", "req2"], pairs=False, faults=True, maxconn=3, timeout=2400))
    sim = [dict(cfg="TS", depth=20, maxtime=16, alpha=["cerok", "req", "dwr", "senderr"], num=300 if th else 50, maxconn=4, faults=True, pairs=False),
           dict(cfg="TS2", depth=20, maxtime=16, alpha=["cerok", "req", "ureq", "senderr", "frag"], num=300 if th else 50, maxconn=4, faults=True, pairs=False),
           dict(cfg="TN", depth=20, maxtime=16, alpha=["cerok", "req", "senderr", "garbage"], num=300 if th else 50, maxconn=4, faults=True, pairs=False)]
    return mc, sim


def enum_plans(tier):
    th = tier == "thorough"
    from .. import nodetrace as nt
    busy = [{"a": "connect"}, {"a": "feed", "c": 1, "ms": [nt.M("CE", True, 7, 77, oh="p1.r1", auth=[4])]},
            {"a": "feed", "c": 1, "ms": [nt.M("APP", True, 1, 1, app=4, oh="p1.r1", realm="r1")]},
            {"a": "feed", "c": 1, "ms": [nt.M("APP", True, 1, 2, app=4, oh="p1.r1", realm="r1")]}]
    return [# the only slot is held for 7 s, a second request waits for it: the peer is lost (or not) at every second of the wait,
            # before and after the application's TOO_BUSY answer
            dict(cfg="TS7", depth=8 if th else 7, maxtime=8 if th else 7, alpha=[], faults=True, maxconn=1, prefix=busy),
            dict(cfg="TS", depth=8 if th else 7, maxtime=6 if th else 5, alpha=["cerok", "req1"], faults=True, maxconn=1),
            dict(cfg="T1", depth=6 if th else 5, maxtime=1, alpha=["cerok", "req1", "req2", "senderr"], faults=True, maxconn=1)]


HANDLERS = ["answer", "hold", "raise", "slow", "alt", "alt"]      # (slow7 - TOO_BUSY - is enumerated with TS7: the probe's 9 s of silence assume handlers of at most 3 s)


def fault_cfg(rng):
    kind = rng.choice(["threading", "threading", "threading", "basic"])
    handler = rng.choice(HANDLERS if kind == "threading" else ["answer", "hold", "raise", "alt"])
    node = {"idle": rng.choice([30, 30, 3]), "dwa": rng.choice([1, 2]), "cer": rng.choice([2, 3]), "cea": rng.choice([2, 3]), "wakeup": rng.choice([1, 2]), "retx": 4}
    peers = [peer_cfg("p1"), peer_cfg("p2", persistent=rng.random() < 0.6, rwait=rng.choice([1, 2]), always=rng.random() < 0.5)]
    apps = [app_cfg("a1", 4, peers=["p1", "p2"], kind=kind, max_threads=rng.choice([0, 1, 2, 3]), handler=handler)]
    return {"node": node, "peers": peers, "apps": apps}


def _fault_job(arg, cfg_fn=None, tag="fault"):
    seed, length = arg
    from .. import schedscen
    rng = random.Random(seed)
    cfg = (cfg_fn or fault_cfg)(rng)
    r = nt.Runner(cfg, seed=seed)
    try:
        g = nt.Gen(r, rng, max_conn=7, focus=dict(PROFILE, stop=0.25 if seed % 5 == 0 else 0))
        if rng.random() < 0.6:
            r.do({"a": "plan", "plan": [rng.choice(["ok", "inprogress", "fail"]) for _ in range(rng.randint(1, 3))]})
        r.do({"a": "start"})
        for _ in range(length):
            if r.w.npc >= 7:
                break
            r.do(g.next_action())
        if not getattr(g, "stopped", False):
            a = cfg["apps"][0]
            schedscen.run_probe(r, n_req=a["max_threads"] + 2, delay={"slow": 3, "slow7": 7}.get(a["handler"], 0))
        else:
            for _ in range(6):
                r.do({"a": "tick"})
        return {"params": nt.model_params(r.full_cfg, max_conn=14), "steps": r.steps, "exits": [(n, e) for n, e, _ in r.w.s.exits],
                "cfg": {tag: {"seed": seed, "length": length}}}
    finally:
        r.close()


def run(tier, seed):
    mc, sim = plans(tier)
    th = tier == "thorough"
    # vacuity guard: the pinned pre-fix behaviours violate Serviceable / the monitor on the model
    from .. import nodetrace as nt
    busy = [{"a": "connect"}, {"a": "feed", "c": 1, "ms": [nt.M("CE", True, 7, 77, oh="p1.r1", auth=[4])]},
            {"a": "feed", "c": 1, "ms": [nt.M("APP", True, 1, 1, app=4, oh="p1.r1", realm="r1")]},
            {"a": "feed", "c": 1, "ms": [nt.M("APP", True, 1, 2, app=4, oh="p1.r1", realm="r1")]}]
    for pins, cfgname, alpha, depth, maxtime, prefix in ((["F14a"], "TS", ["cerok", "req1"], 8, 4, ()), (["F14b"], "TN", ["cerok", "req1", "req2"], 5, 1, ()),
                                                         (["F14c"], "TS7", [], 7, 7, busy)):
        r = nc.mc_run("c14_vac_" + pins[0], cfgname, depth, maxtime, alpha, False, True, 1, ["Inv14", "Serviceable"], pinned=pins, timeout=900, prefix=prefix)
        if not r["violated"]:
            raise tlc.TlcError("vacuity guard failed: Node.tla with %s pinned satisfies Serviceable and Inv14" % pins)
    ck = nc.run_property("C14", tier, seed, ["Inv14", "Serviceable"], PROFILE, mc, sim, 0, ASSUME, enum_plan=enum_plans(tier))
    ck.cov["pinned_models_violate"] = True
    # ---- fault sequences on the real node, each followed by the probe ---------------------------------
    n = 1500 if th else 128
    hs = fan_out(_fault_job, [(seed * 7919 + i, 14 + (i % 3) * 6) for i in range(n)])
    nv, ncf = nc.judge(ck, "C14", hs, "c14_f", conf=True)
    ck.cov["fault_histories_with_probe"] = len(hs)
    ck.cov["traces_validated_against_impl"] = ck.cov.get("traces_validated_against_impl", 0) + ncf
    ck.cov["evaluations"] = ck.cov.get("evaluations", 0) + len(hs)
    ck.cov["distinct_nontrivial"] = ck.cov.get("distinct_nontrivial", 0) + len({json.dumps([s["act"] for s in h["steps"]], sort_keys=True) for h in hs})
    for h in hs:
        if h["exits"]:
            ck.cov["histories_with_thread_exits"] = ck.cov.get("histories_with_thread_exits", 0) + 1
    # ---- the free grain: Serviceable after every single thread step, under every interleaving --------------
    nc.free_phase(ck, "C14", [
        dict(cfg="T1", depth=11 if th else 8, maxtime=1, alpha=["cerok", "req1"], faults=True, maxconn=1, invs=["Serviceable", "Inv14"],
             sim=300 if th else 40, sim_depth=24, sim_alpha=["cerok", "req1", "req2", "senderr"], sim_maxconn=2),
        dict(cfg="TS", depth=11 if th else 8, maxtime=4, alpha=["cerok", "req1"], faults=True, maxconn=1, invs=["Serviceable", "Inv14"],
             sim=300 if th else 40, sim_depth=24, sim_alpha=["cerok", "req1", "req2"], sim_maxconn=2)], seed, monitors=("C14",))
    # ---- schedules: the connection is lost at every scheduling point of a request in progress ---------
    from .. import schedscen
    P = 3 if th else 2
    runs, nsch = schedscen.explore_scenario(schedscen.c14_peer_lost_while_request_in_progress, P, max_runs=6000 if th else 200, whole=True)
    res = nt.mon_batch(runs[0][0]["params"], [r["steps"] for r, _ in runs], "c14_sched")
    for (r, sched), v in zip(runs, res):
        for x in v.get("C14", []):
            ck.violation(x["sig"] + ":schedule", "scenario c14_peer_lost_while_request_in_progress under schedule %r: %s" % (
                sched[:40], [nc.brief(e) for st in r["steps"] for e in st["out"]][-12:]), {"sched_scenario": "c14_peer_lost_while_request_in_progress", "schedule": sched})
        if r["exits"] and not v.get("C14"):
            ck.violation("thread_terminated_abnormally:schedule", "thread exits %r" % (r["exits"][:2],), {"sched_scenario": "c14_peer_lost_while_request_in_progress", "schedule": sched})
    ck.cov["schedules_explored"] = nsch
    ck.cov["schedule_preemption_bound"] = P
    ck.cov["schedule_distinct_outcomes"] = len(runs)
    return ck.finish()


def replay(path, seed):
    body = json.load(open(path))
    rp = body.get("replay") or {}
    if "sched_scenario" in rp:
        from .. import schedscen, explore
        r = getattr(schedscen, rp["sched_scenario"])(explore.Decisions(rp["schedule"]))
        v = nt.mon_batch(r["params"], [r["steps"]], "c14_sched_replay")[0].get("C14", [])
        print("replayed schedule: %s exits %s" % (v, r["exits"]))
        if v or r["exits"]:
            print("VIOLATION property=C14 replay=%s" % path)
            return 1
        return 0
    cfg = rp.get("cfg") or {}
    if "fault" in cfg:
        h = _fault_job((cfg["fault"]["seed"], cfg["fault"]["length"]))
        v = nt.mon_batch(h["params"], [h["steps"]], "c14_replay")[0].get("C14", [])
        print("replayed %d steps; C14 violations: %s" % (len(h["steps"]), v))
        if any(x["sig"] == body["sig"] for x in v):
            print("VIOLATION property=C14 replay=%s" % path)
            return 1
        return 0
    return nc.replay_file("C14", path)
