PROFILE = {"weights": [2, 2, 1, 1, 0, 0, 16, 1, 3, 0], "act": {"tick": 1, "feed": 20, "connect": 2, "submit": 6}, "single": True}
ASSUME = ["judged for requests received alone in a network read; the window is the configured number of most recent answers handed to the transport for requests of that origin"]


def plans(tier):
    th = tier == "thorough"
    mc = [dict(cfg="A", depth=7 if th else 5, maxtime=0, alpha=["cer", "req"], pairs=False, faults=False, maxconn=1),
          dict(cfg="HOLD2", depth=7 if th else 5, maxtime=0, alpha=["cer", "req"], pairs=False, faults=False, maxconn=1)]
    sim = [dict(cfg="A", depth=16, maxtime=2, alpha=["cer", "req", "ureq", "dwr"], num=400 if th else 80, maxconn=2, pairs=False, faults=False),
           dict(cfg="HOLD2", depth=16, maxtime=2, alpha=["cer", "req"], num=400 if th else 80, maxconn=3, pairs=False, faults=False)]
    return mc, sim
