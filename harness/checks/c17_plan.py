PROFILE = {"weights": [2, 2, 1, 1, 0, 0, 16, 1, 3, 0], "act": {"tick": 1, "feed": 20, "connect": 2, "submit": 6}, "single": True}
ASSUME = ["judged for requests received alone in a network read; the window is the configured number of most recent answers handed to the transport for requests of that origin"]


def plans(tier):
    th = tier == "thorough"
    mc = [dict(cfg="A", depth=7 if th else 5, maxtime=0, alpha=["cer", "req"], pairs=False, faults=False, maxconn=1),
          dict(cfg="HOLD2", depth=7 if th else 5, maxtime=0, alpha=["cer", "req"], pairs=False, faults=False, maxconn=1)]
    sim = [dict(cfg="A", depth=16, maxtime=2, alpha=["cer", "req", "ureq", "dwr"], num=400 if th else 80, maxconn=2, pairs=False, faults=False),
           dict(cfg="HOLD2", depth=16, maxtime=2, alpha=["cer", "req"], num=400 if th else 80, maxconn=3, pairs=False, faults=False)]
    return mc, sim


def enum_plans(tier):
    th = tier == "thorough"
    from .. import nodetrace as nt
    # (the CER has identifiers of its own: its answer sits in the same per-origin window as the applications' answers)
    ready = [{"a": "connect"}, {"a": "feed", "c": 1, "ms": [nt.M("CE", True, 7, 77, oh="p1.r1", auth=[4])]}]
    return [# a held request answered (2001 or a protocol error) at once or after 100 s of silence, other requests in between,
            # then its retransmission: every order
            dict(cfg="HOLDLONG", depth=6 if th else 5, maxtime=100, alpha=["req1", "req1T", "req2", "sube", "jump100"], faults=False, maxconn=1, prefix=ready)]
