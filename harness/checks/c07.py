"""C07 — each transmitted answer answers exactly one received request, never an answer (Mon_C07.tla)"""
from . import nodecommon as nc
from .c07_plan import PROFILE, plans, ASSUME, enum_plans


def run(tier, seed):
    mc, sim = plans(tier)
    ck = nc.run_property("C07", tier, seed, "Inv07", PROFILE, mc, sim, 1500 if tier == "thorough" else 240, ASSUME, enum_plan=enum_plans(tier))
    # the free grain: the clauses of Mon_C07 do not depend on step boundaries, so they are also checked under every
    # interleaving of single thread steps (model) and on free-grain behaviours executed on the node
    th = tier == "thorough"
    nc.free_phase(ck, "C07", [
        dict(cfg="A", depth=10 if th else 8, maxtime=1, alpha=["cerok", "req1", "dwr"], faults=False, maxconn=1, invs=["Inv07"],
             sim=300 if th else 60, sim_depth=22, sim_alpha=["cerok", "req1", "req2", "dwr", "dpr", "ureq"], sim_maxconn=3),
        dict(cfg="HOLD2", depth=9 if th else 7, maxtime=1, alpha=["cerok", "req1"], faults=True, maxconn=2, invs=["Inv07"],
             sim=300 if th else 60, sim_depth=22, sim_alpha=["cerok", "req1", "req2", "dwr"], sim_maxconn=3)], seed, monitors=("C07",))
    return ck.finish()


def replay(path, seed):
    return nc.replay_file("C07", path)
