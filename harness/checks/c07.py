"""C07 — each transmitted answer answers exactly one received request, never an answer (Mon_C07.tla)"""
from . import nodecommon as nc
from .c07_plan import PROFILE, plans, ASSUME, enum_plans


def run(tier, seed):
    mc, sim = plans(tier)
    ck = nc.run_property("C07", tier, seed, "Inv07", PROFILE, mc, sim, 1500 if tier == "thorough" else 240, ASSUME, enum_plan=enum_plans(tier))
    return ck.finish()


def replay(path, seed):
    return nc.replay_file("C07", path)
