"""C05 — stream framing: chunking-invariant, ordered, exactly-once, always progresses.

Model : spec/Framing.tla (+ MC_Framing): TLC exhaustive over every sequence of <= N frames of
        every kind (good, undecodable, length 0, 1..H-1, short, long), every chunking, every
        interleaving of network reads with the reader (H = 2).
Code  : the real PeerConnection.work_read_queue runs as a virtual thread on concrete streams
        (H = 20); per framing-loop iteration observations are (1) judged by the C05 monitor
        (Trace_C05!Verdict, evaluated by TLC) and (2) validated as traces of Framing by TLC.
"""
from __future__ import annotations

import itertools
import json
import os
import random
import re

from .. import simrt, tlc, msgs, explore
from ..common import Check, OUT, fan_out
from ..load import load

H = 20


class SpinDetected(BaseException):
    pass


def build_frame(kind, idx, size_class=0, variant=0):
    """-> dict(kind, real, declared, bytes)"""
    if kind == "undec":
        # two ways of being undecodable: AVP framing that runs off the end (packer error) / a typed command whose grouped AVP
        # has a malformed payload (AvpDecodeError)
        b = (msgs.undecodable2 if (idx + variant) % 2 else msgs.undecodable)(hbh=idx, size=40 + 4 * size_class)
        return {"kind": kind, "real": len(b), "declared": len(b), "bytes": b}
    if size_class == 0:
        b = msgs.dwr("p%d.r1" % idx, hbh=idx, e2e=idx).as_bytes()
    elif size_class == 1:
        b = msgs.cer("p%d.r1" % idx, hbh=idx, e2e=idx).as_bytes()
    elif size_class == 2:
        b = msgs.ccr("p%d.r1" % idx, hbh=idx, e2e=idx, pad=300 + 37 * variant).as_bytes()
    elif size_class == 3:
        b = msgs.ccr("p%d.r1" % idx, hbh=idx, e2e=idx, pad=8000).as_bytes()
    else:
        # 20-byte message: header only (an answer of an unknown command)
        b = msgs.hdr_bytes(9999, 0, 0, idx, idx, 20)
    real = len(b)
    if kind == "good":
        d = real
    elif kind == "len0":
        d = 0
    elif kind == "lenTiny":
        d = [1, 19, 7, 8, 11, 12][variant % 6]
    elif kind == "lenShort":
        d = [20, real - 1, real - 4, max(20, real // 2)][variant % 4] if real > 20 else None
    elif kind == "lenLong":
        d = [real + 1, real + 4, real + 20, real + 72, 0xFFFFFF][variant % 5]
    else:
        raise ValueError(kind)
    if d is None:
        return None
    return {"kind": kind, "real": real, "declared": d, "bytes": msgs.set_length(b, d) if d != real else b}


def run_stream(cfg):
    """cfg: {frames:[{kind,real,declared,bytes}], cuts:[...], mode: 'lockstep'|'burst'|int seed}"""
    ns = load()
    s = simrt.Scheduler()
    simrt.install(s)
    P = ns.peer
    rp, wp = simrt.os_shim.pipe()
    frames = cfg["frames"]
    stream = b"".join(f["bytes"] for f in frames)
    cuts = sorted(set(c for c in cfg["cuts"] if 0 < c < len(stream)))
    chunks = [stream[a:b] for a, b in zip([0] + cuts, cuts + [len(stream)])]
    events = []
    delivered = []
    st = {"last_n": None, "last_step": None, "run": 0, "maxiter": 0, "spin": False}
    real_hdr = P.MessageHeader

    class HdrProxy:
        @staticmethod
        def from_bytes(buf):
            n = len(buf)
            if st["last_n"] == n and st["last_step"] == s.qgets:
                st["run"] += 1
            else:
                st["run"] = 0
            st["last_n"], st["last_step"] = n, s.qgets
            st["maxiter"] = max(st["maxiter"], st["run"])
            if st["run"] >= 3:
                st["spin"] = True
                raise SpinDetected()
            try:
                h = real_hdr.from_bytes(buf)
            except BaseException:
                events.append({"ev": "iter", "n": n, "d": -1, "del": -1, "closed": 0})
                raise
            events.append({"ev": "iter", "n": n, "d": h.length, "del": -1, "closed": 0})
            return h

        def __getattr__(self, k):
            return getattr(real_hdr, k)

    P.MessageHeader = HdrProxy
    try:
        conn = P.PeerConnection("10.0.0.9", 1234, P.PEER_RECV, interrupt_fileno=wp)
        conn.state = P.PEER_READY

        def handler(c, m):
            f = m.header.hop_by_hop_identifier
            ok = 1 <= f <= len(frames) and frames[f - 1]["kind"] == "good" and m.header.length == frames[f - 1]["real"] \
                and m.header.end_to_end_identifier == f
            fid = f if ok else 0
            delivered.append(fid)
            for e in reversed(events):          # the iteration that decoded it (the feeding thread may have logged a read since)
                if e["ev"] == "iter":
                    e["del"] = fid
                    break

        conn.message_handler = handler
        mode = cfg.get("mode", "lockstep")
        rng = random.Random(mode) if isinstance(mode, int) else None
        gaps = set(cfg.get("gaps", ()))        # chunk indexes after which the stream stays silent for 6 s (longer than the reader's poll)
        try:
            if mode == "sched":
                # the I/O loop's side as a thread of its own: every schedule of it against the reader, with a scheduling point
                # before every source line of work_read_queue and add_in_bytes (cfg["schedule"] = choice prefix)
                pol = explore.Decisions(cfg.get("schedule", ()))
                s.policy = pol
                cfg["_policy"] = pol
                s.tracefn = explore.make_line_tracer(s, {P.PeerConnection.work_read_queue.__code__: "rd",
                                                         P.PeerConnection.add_in_bytes.__code__: "add"}, call_boundaries=False)

                def feeder():
                    for ch in chunks:
                        events.append({"ev": "recv"})      # logged before the put: the reader cannot have seen the chunk earlier
                        conn.add_in_bytes(ch)
                simrt.Thread(target=feeder, name="feeder").start()
                s.run()
            else:
                s.run()
                for ci, ch in enumerate(chunks):
                    conn.add_in_bytes(ch)
                    events.append({"ev": "recv"})
                    if mode == "lockstep" or (rng is not None and rng.random() < 0.5) or ci in gaps:
                        s.run()
                    if ci in gaps and conn.state != P.PEER_CLOSED:
                        s.advance(6)
                        s.run()
                        events.append({"ev": "timeout", "n": len(conn._read_buffer)})
                s.run()
            # let timed waits elapse once: nothing may change
            s.advance(6)
            s.run()
            hung = False
        except simrt.MachineryError:
            hung = True
        reader = conn._read_thread if hasattr(conn, "_read_thread") else None
        rthreads = [t for t in s.threads if getattr(t, "_target", None) is not None and getattr(t._target, "__name__", "") == "work_read_queue"]
        rt = rthreads[0] if rthreads else reader
        died = [e for e in s.exits if e[0] == rt.name]
        if st["spin"] or hung:
            final = "spin"
        elif died:
            final = "dead"
        elif conn.state == P.PEER_CLOSED:
            final = "closed"
        elif rt.is_alive():
            final = "wait"
        else:
            final = "stuck"
        if final == "closed":
            for e in reversed(events):
                if e["ev"] == "iter":
                    e["closed"] = 1
                    break
        events.append({"ev": "end", "st": final})
    finally:
        P.MessageHeader = real_hdr
        s.teardown()
        simrt.install(None)
    return {"frames": [{"kind": f["kind"], "real": f["real"], "declared": f["declared"]} for f in frames],
            "cuts": cuts, "ev": events, "delivered": delivered, "final": final,
            "maxiter": st["maxiter"] + (1 if st["spin"] else 0), "exits": [(n, e) for n, e, _ in s.exits], "mode": mode,
            "gaps": sorted(cfg.get("gaps", ())), "schedule": [r[1] for r in cfg["_policy"].records] if "_policy" in cfg else []}


def _job(cfgs):
    out = []
    for c in cfgs:
        if c.get("mode") == "sched":
            out += explore_schedules(c)
        else:
            out.append(run_stream(c))
    return out


def explore_schedules(cfg):
    """every schedule of the feeding thread against the reader with at most cfg['preempt'] preemptions"""
    out = []

    def one(pol):
        c = dict(cfg, schedule=list(pol.prefix))
        r = run_stream(c)
        pol.records = c["_policy"].records
        return r
    for r, pol in explore.explore(one, cfg["preempt"], max_runs=cfg.get("max_runs", 4000)):
        out.append(r)
    return out


def gen_configs(tier, seed):
    rng = random.Random(seed)
    kinds = ["good", "undec", "len0", "lenTiny", "lenShort", "lenLong"]
    out = []

    def stream(spec):
        fr = []
        for i, (k, sc, v) in enumerate(spec):
            f = build_frame(k, i + 1, sc, v)
            if f is None:
                return None
            fr.append(f)
        return fr

    def add(fr, cuts, mode="lockstep"):
        if fr is not None:
            out.append({"frames": fr, "cuts": list(cuts), "mode": mode})

    thorough = tier == "thorough"
    # (a) all-good streams of 1..2 small frames: every 1-cut and every 2-cut position
    for spec in ([("good", 4, 0)], [("good", 0, 0)], [("good", 4, 0), ("good", 0, 0)], [("good", 0, 0), ("good", 4, 0)],
                 [("good", 4, 0), ("good", 4, 0), ("good", 4, 0)]):
        fr = stream(spec)
        L = sum(f["real"] for f in fr)
        for c in range(1, L):
            add(fr, [c])
            add(fr, [c], "burst")
        step = 1 if (thorough or L <= 80) else 3
        for a, b in itertools.combinations(range(1, L, step), 2):
            add(fr, [a, b], "lockstep" if (a + b) % 2 else "burst")
    # (b) every kind at every position of streams of 1..3 frames; every 1-cut position (stride in quick)
    for n in (1, 2, 3):
        for ks in itertools.product(kinds, repeat=n):
            if n == 3 and not thorough and rng.random() < 0.5:
                continue
            for v in range(3 if thorough else 1):
                spec = [(k, 4 if (i + v) % 2 else 0, v + i) for i, k in enumerate(ks)]
                fr = stream(spec)
                if fr is None:
                    continue
                L = sum(f["real"] for f in fr)
                add(fr, [])
                add(fr, range(1, L))          # byte at a time
                stride = 1 if (n == 1 or thorough) else (5 if n == 2 else 11)
                for c in range(1, L, stride):
                    add(fr, [c], "burst" if c % 2 else "lockstep")
                for _ in range(6 if thorough else 2):
                    k = rng.randint(2, 6)
                    add(fr, sorted(rng.sample(range(1, L), min(k, L - 1))), rng.randint(1, 10 ** 6))
    # (b2) silence in the middle of a frame: the stream pauses for longer than the reader's poll after any chunk
    base = list(out)
    k = 0
    for c in base:
        if c["mode"] == "lockstep" and 1 <= len(c["cuts"]) <= 8:
            k += 1
            if thorough or k % 3 == 0:
                n = len(c["cuts"]) + 1
                out.append(dict(c, gaps=sorted({rng.randrange(n), rng.randrange(n)}) if n > 2 else [0]))
    # (b3) every schedule of the I/O loop's add_in_bytes against the reader (source-line grain, preemption bound 2; 3 thorough)
    for spec, cuts in (([("good", 4, 0), ("good", 4, 0), ("good", 4, 0)], [20, 40]), ([("good", 4, 0), ("good", 0, 0)], [7, 20, 31]),
                       ([("undec", 0, 0), ("good", 4, 0)], [33, 40]), ([("good", 4, 0), ("lenLong", 4, 0), ("good", 4, 0)], [20, 25])):
        add(stream(spec), cuts, "sched")
        out[-1]["preempt"] = 3 if thorough else 2
        out[-1]["max_runs"] = 20000 if thorough else 2500
    # (c) long streams: 4..6 frames incl. 8 KiB, random k-cuts, byte-at-a-time, 2048-byte reads
    for i in range(60 if thorough else 12):
        n = rng.randint(4, 6)
        spec = []
        for j in range(n):
            k = "good" if rng.random() < 0.7 else rng.choice(kinds)
            spec.append((k, rng.choice([0, 1, 2, 2, 3, 4]), rng.randint(0, 9)))
        fr = stream(spec)
        if fr is None:
            continue
        L = sum(f["real"] for f in fr)
        add(fr, range(2048, L, 2048))
        add(fr, sorted(rng.sample(range(1, L), rng.randint(1, 12))), rng.randint(1, 10 ** 6))
        if L < 3000 or (thorough and i % 6 == 0):
            add(fr, range(1, L))
    return out


def node_reads(sizes, paced):
    """The same statement one level up: a stream of 40 watchdog requests (128 octets each) reaches a real Node's socket in
    network reads of the given sizes (the I/O loop reads with recv(2048)); every request must be answered once, in order."""
    from ..world import World, peer_cfg, app_cfg
    load()
    w = World(peers=[peer_cfg("p1")], apps=[app_cfg("a1", peers=["p1"])])
    try:
        w.start()
        vc = w.accept()
        w.feed(vc, [msgs.cer("p1.r1")])
        frames = []
        for i in range(1, 41):
            m = msgs.dwr("p1.r1", hbh=i, e2e=i)
            b = m.as_bytes()
            m.append_avp(msgs.Avp.new(msgs.K.AVP_USER_NAME, value="u" * (128 - len(b) - 8)))
            b = m.as_bytes()
            assert len(b) == 128, len(b)
            frames.append(b)
        stream = b"".join(frames)
        base = len(vc.tx)
        pos = 0
        for n in sizes:
            vc.sock.feed(stream[pos:pos + n])
            pos += n
            if paced:
                w.run()
        assert pos == len(stream)
        w.run()
        w.tick(1)
        got = [m["hbh"] for m in vc.tx[base:] if m["cmd"] == "DW" and not m["req"]]
        return got, vc.closed, [(n, e) for n, e, _ in w.s.exits]
    finally:
        w.close()


def run(tier, seed):
    ck = Check("C05", tier, seed, "model_checking")
    thorough = tier == "thorough"
    ck.assumptions += [
        "network reads enter through PeerConnection.add_in_bytes; the I/O loop's own socket read (recv(2048)) is exercised by a node-level stage with reads of 2047 / 2048 / 2049 / 4096 / 5120 octets, paced and all at once",
        "a misaligned buffer head is modelled as an arbitrary length field and an arbitrary decode outcome",
        "progress is measured in framing-loop iterations (header parses) per consumed byte, not wall time",
    ]
    # ---- A. model ------------------------------------------------------------
    mcs = [dict(H=2, MaxLen=4, MaxFrames=2, Sizes="@{2,3}")]
    if thorough:
        mcs.append(dict(H=2, MaxLen=5, MaxFrames=3, Sizes="@{2,3}"))
    else:
        mcs.append(dict(H=2, MaxLen=4, MaxFrames=3, Sizes="@{2}"))
    states = trans = 0
    for i, c in enumerate(mcs):
        cfg = tlc.cfg_text(dict(c, ZeroLenSpins=False, DiscardSkipsShortCheck=False), spec="MCSpec",
                           invariants=["TypeOk", "PrefixOk", "FinalOk", "BeforeBadOk", "Progress"])
        r = tlc.run("MC_Framing", cfg, "c05_mc_%d" % i, coverage=True, timeout=3000)
        tlc.must_ok(r, "MC_Framing")
        if r["violated"] or not r["complete"]:
            raise tlc.TlcError("Framing model violates %s (complete=%s)" % (r["violated"], r["complete"]))
        states += r["distinct"]
        trans += r["generated"]
        for a in ("IoRecv", "RdDequeue", "RdIter"):
            if r["coverage"].get("Framing." + a, {}).get("taken", 0) == 0:
                raise tlc.TlcError("vacuity: %s never taken" % a)
    # liveness (termination) on the small instance
    cfg = tlc.cfg_text(dict(H=2, MaxLen=4, MaxFrames=2, Sizes="@{2}", ZeroLenSpins=False, DiscardSkipsShortCheck=False), spec="MCFair", properties=["Terminates"])
    r = tlc.run("MC_Framing", cfg, "c05_live", timeout=1800)
    tlc.must_ok(r, "MC_Framing liveness")
    if r["violated"] or not r["complete"]:
        raise tlc.TlcError("Framing: termination not established: %s" % r["violated"])
    states += r["distinct"]
    trans += r["generated"]
    # vacuity guard: the pinned behaviour (length 0 "discards 0 bytes") must violate Progress
    cfg = tlc.cfg_text(dict(H=2, MaxLen=4, MaxFrames=1, Sizes="@{2}", ZeroLenSpins=True, DiscardSkipsShortCheck=False), spec="MCSpec", invariants=["Progress"])
    r = tlc.run("MC_Framing", cfg, "c05_vac", timeout=600)
    if "Progress" not in r["violated"]:
        raise tlc.TlcError("vacuity guard failed: ZeroLenSpins model satisfies Progress")
    cfg = tlc.cfg_text(dict(H=2, MaxLen=4, MaxFrames=2, Sizes="@{2}", ZeroLenSpins=False, DiscardSkipsShortCheck=True), spec="MCSpec", invariants=["FinalOk"])
    r = tlc.run("MC_Framing", cfg, "c05_vac2", timeout=600)
    if "FinalOk" not in r["violated"]:
        raise tlc.TlcError("vacuity guard failed: DiscardSkipsShortCheck model satisfies FinalOk")
    ck.cov.update(states=states, transitions=trans, exhaustive=True, model_with_zero_length_spin_violates_Progress=True, model_with_continue_after_discard_violates_FinalOk=True)

    # ---- B. code --------------------------------------------------------------
    load()
    cfgs = gen_configs(tier, seed)
    cfgs.sort(key=lambda c: c["mode"] != "sched")         # the schedule explorations are the long jobs: one per worker, started first
    jobs = [cfgs[i::64] for i in range(64)]
    results = [r for chunk in fan_out(_job, jobs) for r in chunk]
    ck.cov["evaluations"] = len(results)
    # monitor verdicts by TLC (Trace_C05!Verdict)
    distinct = set()
    verdict_in = []
    for r in results:
        verdict_in.append({"frames": r["frames"], "cuts": [], "ev": [], "delivered": r["delivered"], "final": r["final"], "maxiter": r["maxiter"]})
        distinct.add((tuple((f["kind"], f["real"], f["declared"]) for f in r["frames"]), tuple(r["cuts"]), str(r["mode"]), tuple(r["gaps"]), tuple(r["schedule"])))
    verdicts = []
    B = 20000
    for off in range(0, len(verdict_in), B):
        p = os.path.join(OUT, "c05_verdict_in_%d.json" % off)
        q = os.path.join(OUT, "c05_verdict_out_%d.json" % off)
        with open(p, "w") as f:
            json.dump(verdict_in[off:off + B], f)
        if os.path.exists(q):
            os.remove(q)
        cfg = tlc.cfg_text({"H": 20, "MaxLen": 0, "ZeroLenSpins": False, "DiscardSkipsShortCheck": False}, spec=None, init="EvInit", next_="EvNext")
        rr = tlc.run("Mon_C05", cfg, "c05_verdict_%d" % off, workers=1, env={"TRACES": p, "VERDICTS": q}, timeout=1800)
        if not os.path.exists(q):
            raise tlc.TlcError("verdict evaluation failed:\n" + rr["out"][-3000:])
        verdicts += json.load(open(q))
    nviol = 0
    for r, v in zip(results, verdicts):
        for sig in v:
            nviol += 1
            kinds = "+".join(f["kind"] for f in r["frames"])
            ck.violation(sig + ":" + ("zero_length" if any(f["kind"] == "len0" for f in r["frames"]) else
                                      "wellformed" if all(f["declared"] == f["real"] for f in r["frames"]) else "bad_length"),
                         "stream %s (declared/real %s) cuts %r mode %s: delivered %r final %s maxiter %d exits %r" % (
                             kinds, [(f["declared"], f["real"]) for f in r["frames"]], r["cuts"][:8], r["mode"], r["delivered"], r["final"], r["maxiter"], r["exits"]),
                         {"frames": r["frames"], "cuts": r["cuts"], "mode": r["mode"], "gaps": r["gaps"], "schedule": r["schedule"]})
    ck.cov["monitor_violations_seen"] = nviol
    ck.cov["distinct_nontrivial"] = len(distinct)
    ck.cov["rule"] = ("one evaluation = the real work_read_queue run on one concrete stream x chunking x feed mode; distinct by "
                      "(frame kinds, sizes, declared lengths, cut set, mode); non-trivial = at least one cut or one non-good frame")
    outcomes = {}
    for r in results:
        key = (r["final"], tuple(f["kind"] for f in r["frames"]))
        outcomes[key] = outcomes.get(key, 0) + 1
    ck.cov["outcome_classes"] = len(outcomes)
    for r in results[:: max(1, len(results) // 5)][:5]:
        ck.sample({"frames": r["frames"], "cuts": r["cuts"][:10], "delivered": r["delivered"], "final": r["final"], "iterations": sum(1 for e in r["ev"] if e["ev"] == "iter")})

    # ---- conformance: traces of the real reader against Framing (H = 20) --------
    small = [r for r in results if sum(f["real"] for f in r["frames"]) <= 400 and r["final"] in ("wait", "closed")]
    rng = random.Random(seed)
    cap = 12000 if thorough else 2500
    if len(small) > cap:
        # keep every outcome class represented
        rng.shuffle(small)
        small = small[:cap]
    validated = rejected = 0
    maxlen = 0xFFFFFF
    for off in range(0, len(small), 1500):
        chunk = small[off:off + 1500]
        p = os.path.join(OUT, "c05_tr_%d.json" % off)
        with open(p, "w") as f:
            json.dump([{"frames": r["frames"], "cuts": r["cuts"], "ev": r["ev"], "delivered": r["delivered"], "final": r["final"], "maxiter": r["maxiter"]} for r in chunk], f)
        cfg = tlc.cfg_text({"H": 20, "MaxLen": 0, "ZeroLenSpins": False, "DiscardSkipsShortCheck": False}, spec="TSpec",
                           invariants=["TypeOk", "PrefixOk", "FinalOk", "Progress"], constraints=["Record"], postcondition="Accepted")
        rr = tlc.run("Trace_C05", cfg, "c05_tv_%d" % off, workers=1, env={"TRACES": p, "VERDICTS": ""}, timeout=3000, dfs_queue=True)
        tlc.must_ok(rr, "Trace_C05")
        rej = re.findall(r'<<"REJECT", (\d+), (\d+)>>', rr["out"])
        validated += len(chunk) - len(rej)
        rejected += len(rej)
        for i, pos in rej[:4]:
            t = chunk[int(i) - 1]
            ck.drift_note("Framing trace rejected at event %s: frames %r cuts %r ev %r" % (
                pos, [(f["kind"], f["declared"], f["real"]) for f in t["frames"]], t["cuts"][:6], t["ev"][max(0, int(pos) - 2):int(pos) + 1]))
        if rr["violated"]:
            ck.drift_note("Trace_C05: invariant %s violated on a trace state" % rr["violated"])
    ck.cov["traces_validated_against_impl"] = validated
    ck.cov["traces_rejected"] = rejected
    # ---- node level: the same stream through the real Node's socket read (recv(2048)) in reads of critical sizes ----
    nlev = 0
    for sizes in ([2048, 2048, 1024], [2047, 2049, 1024], [2049, 2047, 1024], [4096, 1024], [5120], [2048, 1, 3071], [128] * 40,
                  [20, 2028, 3072], [2048, 3072], [1024, 2048, 2048]):
        for paced in (True, False):
            got, closed, exits = node_reads(sizes, paced)
            nlev += 1
            if got != list(range(1, 41)) or closed or exits:
                ck.violation("node_read_delivery_mismatch", "40 watchdog requests in network reads of %r octets (%s): answered %r, connection closed %s, thread exits %r" % (
                    sizes, "one read per I/O iteration" if paced else "all pending at once", got, closed, exits), {"node_reads": sizes, "paced": paced})
    ck.cov["node_level_read_patterns"] = nlev
    return ck.finish()


def replay(path, seed):
    body = json.load(open(path))
    rp = body["replay"]
    if "node_reads" in rp:
        got, closed, exits = node_reads(rp["node_reads"], rp["paced"])
        print("replayed: answered %r closed %s exits %r" % (got, closed, exits))
        if got != list(range(1, 41)) or closed or exits:
            print("VIOLATION property=C05 replay=%s" % path)
            return 1
        return 0
    frames = []
    # rebuild concrete frames of the same kinds/sizes
    for i, f in enumerate(rp["frames"]):
        for sc in (0, 1, 2, 3, 4):
            for v in range(10):
                g = build_frame(f["kind"], i + 1, sc, v)
                if g and g["real"] == f["real"] and g["declared"] == f["declared"]:
                    frames.append(g)
                    break
            else:
                continue
            break
    if len(frames) != len(rp["frames"]):
        print("MACHINERY cannot rebuild frames")
        return 2
    r = run_stream({"frames": frames, "cuts": rp["cuts"], "mode": rp["mode"], "gaps": rp.get("gaps", []), "schedule": rp.get("schedule", [])})
    print("replayed: delivered=%r final=%s maxiter=%d" % (r["delivered"], r["final"], r["maxiter"]))
    bad = r["maxiter"] > 1 or r["final"] in ("dead", "stuck", "spin")
    good = [i + 1 for i, f in enumerate(frames) if f["kind"] == "good"]
    if all(f["declared"] == f["real"] for f in frames) and (r["delivered"] != good or r["final"] != "wait"):
        bad = True
    if bad:
        print("VIOLATION property=C05 replay=%s" % path)
        return 1
    return 0
