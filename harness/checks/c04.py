"""C04 — decoding hostile bytes terminates, stays inside the buffer, raises only the library's decode errors.

Model : spec/Unpack.tla — the decoder's cursor machine (one Step per Avp.from_unpacker call with an
        adversarial V flag / length field).  TLC: InBuffer, Advance (>= 8 octets per AVP), Bounded
        (<= len/8 AVPs, hence linear), termination under fairness — exhaustive for every buffer
        length <= 48 and every length-field value.
Code  : every Unpacker the real decoder creates (message body, every grouped payload) is recorded as a
        cursor trace (position before/after each AVP, header fields read, outcome) and validated by TLC
        against Unpack (spec/Trace_C04.tla).  The outcome oracle runs on every hostile input:
        Message.from_bytes (typed and plain), Avp.from_bytes, .value of every AVP, str() of every AVP
        and header; allowed: a result, packer.Error/ConversionError, AvpDecodeError.
"""
from __future__ import annotations

import json
import os
import random
import re
import struct
import sys

from .. import codec, tlc
from ..common import Check, OUT, fan_out
from diameter.message import Message, MessageHeader, Avp, AvpGrouped, UndefinedMessage, DefinedMessage
from diameter.message import packer as packmod
from diameter.message.avp import avp as avpmod
from diameter.message.avp.errors import AvpDecodeError
from diameter.message.commands import all_commands

ALLOWED = (packmod.Error, AvpDecodeError)
BOUNDARY = lambda n: [0, 1, 7, 8, 11, 12, max(0, n - 1), n + 1, 0xFFFFFF]


class Spin(BaseException):
    pass


class Recorder:
    """cursor traces of every Unpacker used by Avp.from_unpacker"""

    def __init__(self):
        self.orig = avpmod.Avp.__dict__["from_unpacker"].__func__
        self.reset()

    def reset(self):
        self.calls = 0
        self.limit = 1 << 40
        self.mode = "loop"
        self.traces = {}
        self.keep = []
        self.foreign = None

    def install(self):
        rec = self

        def from_unpacker(cls, unpacker):
            buf = unpacker.get_buffer()
            p0 = unpacker.get_position()
            rec.calls += 1
            if rec.calls > rec.limit:
                raise Spin()
            tr = rec.traces.get(id(unpacker))
            if tr is None:
                tr = rec.traces[id(unpacker)] = {"len": len(buf), "start": p0, "ev": [], "outcome": "ok", "mode": rec.mode}
                rec.keep.append(unpacker)
            v, L = False, 0
            if p0 + 8 <= len(buf):
                v = bool(buf[p0 + 4] & 0x80)
                L = int.from_bytes(buf[p0 + 5:p0 + 8], "big")
            try:
                a = rec.orig(cls, unpacker)
            except packmod.Error:
                rec.mode = "loop"
                tr["ev"].append((v, L, -1))
                tr["outcome"] = "error"
                raise
            except BaseException as e:
                tr["ev"].append((v, L, -1))
                tr["outcome"] = "foreign:" + type(e).__name__
                raise
            tr["ev"].append((v, L, unpacker.get_position()))
            rec.mode = "loop"
            return a
        avpmod.Avp.from_unpacker = classmethod(from_unpacker)

    def uninstall(self):
        avpmod.Avp.from_unpacker = classmethod(self.orig)

    def abstract(self):
        """traces relative to the first cursor position (the message body starts at 20)"""
        out = []
        for tr in self.traces.values():
            s = tr["start"]
            out.append((tr["mode"], tr["len"] - s, tuple((v, L, (a - s) if a >= 0 else -1) for v, L, a in tr["ev"]), tr["outcome"]))
        return out


def walk(avps, probs, depth=0):
    """value and text of every AVP, recursively -> number of AVPs visited"""
    n = 0
    for a in avps:
        n += 1
        try:
            val = a.value
        except AvpDecodeError:
            val = None
        except BaseException as e:
            probs.append(("value_raised:%s:%s" % (type(a).__name__, type(e).__name__), "%s.value raised %r on payload %s" % (type(a).__name__, e, a.payload[:40].hex())))
            val = None
        if val is None:
            # a malformed payload is malformed on every read
            try:
                again = a.value
                if again is not None:
                    probs.append(("value_inconsistent:%s" % type(a).__name__, "%s.value raised the decode error once and then returned %r" % (type(a).__name__, str(again)[:80])))
            except BaseException:
                pass
        try:
            str(a)
        except BaseException as e:
            probs.append(("str_raised:%s:%s" % (type(a).__name__, type(e).__name__), "str(%s) raised %r on payload %s" % (type(a).__name__, e, a.payload[:40].hex())))
        if isinstance(a, AvpGrouped) and isinstance(val, list) and depth < 40:
            n += walk(val, probs, depth + 1)
    return n


def decode_one(rec, data, ops=("typed", "plain", "avp")):
    """run every decoding entry point on data -> (problems, abstract traces, per-op call counts)"""
    probs = []
    traces = []
    for op in ops:
        rec.reset()
        rec.limit = 8 * (len(data) // 8) + 64
        res = None
        try:
            if op == "typed":
                res = Message.from_bytes(data)
            elif op == "plain":
                res = Message.from_bytes(data, plain_msg=True)
            else:
                rec.mode = "single"          # the first unpacker is Avp.from_bytes' own: one call, no loop
                res = Avp.from_bytes(data)
        except ALLOWED:
            pass
        except Spin:
            probs.append(("no_progress:%s" % op, "more than %d AVP decode calls for %d octets" % (rec.limit, len(data))))
            traces += rec.abstract()
            continue
        except RecursionError as e:
            probs.append(("foreign_exception:%s:RecursionError" % op, "recursion limit"))
        except BaseException as e:
            where = ""
            tb = e.__traceback__
            while tb is not None:
                where = "%s:%s" % (os.path.basename(tb.tb_frame.f_code.co_filename), tb.tb_frame.f_code.co_name)
                tb = tb.tb_next
            probs.append(("foreign_exception:%s:%s:%s" % (op, type(e).__name__, where), "%s raised %r" % (op, e)))
        c_decode = rec.calls
        if res is not None:
            if op == "avp":
                walk([res], probs)
            else:
                try:
                    str(res.header)
                    repr(res.header)
                except BaseException as e:
                    probs.append(("str_raised:MessageHeader:%s" % type(e).__name__, "str(header) raised %r" % e))
                try:
                    lst = res._avps if op == "plain" else (res._avps or list(getattr(res, "_additional_avps", [])))
                except BaseException:
                    lst = []
                walk(lst, probs)
        # linear work: AVP headers at all nesting levels are disjoint 8-octet ranges of the input, plus at most
        # one failing call per unpacker (an unpacker per grouped AVP and one for the body)
        bound = 2 * (len(data) // 8) + 2
        if c_decode > bound or rec.calls - c_decode > 3 * bound:      # (the walk reads a failing grouped value up to three times)
            probs.append(("superlinear:%s" % op, "%d / %d AVP decode calls for %d octets" % (c_decode, rec.calls - c_decode, len(data))))
        traces += rec.abstract()
        for t in rec.traces.values():
            if t["outcome"].startswith("foreign"):
                probs.append(("foreign_exception:from_unpacker:%s" % t["outcome"][8:], "Avp.from_unpacker raised %s" % t["outcome"][8:]))
    return probs, traces


# ------------------------------------------------------------------------------------------------ inputs
def header(code, flags, app=0, length=None, body=b""):
    n = 20 + len(body) if length is None else length
    return struct.pack(">I", (1 << 24) | (n & 0xFFFFFF)) + struct.pack(">I", (flags << 24) | code) + struct.pack(">III", app, 0x1234, 0x5678) + body


def raw_avp(code, vendor, payload, flags=0x40, length=None):
    hl = 12 if vendor else 8
    n = hl + len(payload) if length is None else length
    fl = flags | (0x80 if vendor else 0)
    out = struct.pack(">I", code) + struct.pack(">I", (fl << 24) | (n & 0xFFFFFF))
    if vendor:
        out += struct.pack(">I", vendor)
    return out + payload + b"\x00" * (-len(payload) % 4)


def avp_positions(body, base=0, depth=0):
    """offsets (relative to the message) of every AVP header, recursively for grouped AVPs (by dictionary)"""
    out = []
    p = 0
    while p + 8 <= len(body):
        code = int.from_bytes(body[p:p + 4], "big")
        fl = body[p + 4]
        L = int.from_bytes(body[p + 5:p + 8], "big")
        hl = 12 if fl & 0x80 else 8
        if L < hl or p + L > len(body):
            break
        vendor = int.from_bytes(body[p + 8:p + 12], "big") if fl & 0x80 else 0
        out.append((base + p, L))
        try:
            e = avpmod.get_avp_dictionary_entry(code, vendor)
        except Exception:       # the generator must not depend on the library being right: the oracle judges the lookup
            e = None
        if e is not None and issubclass(e["type"], AvpGrouped) and depth < 20:
            out += avp_positions(body[p + hl:p + L], base + p + hl, depth + 1)
        p += (L + 3) // 4 * 4
    return out


def valid_messages(rng, n, entries, by_kind):
    """valid messages built with the library: typed commands carrying AVPs they declare + arbitrary dictionary AVPs"""
    cmds = []
    for code, base in sorted(all_commands.items()):
        subs = [s for s in base.__subclasses__() if getattr(s, "avp_def", None)]
        cmds.append((code, subs))
    out = []
    dict_by_key = {(e[0], e[1]): e for e in entries}
    for i in range(n):
        code, subs = cmds[i % len(cmds)] if i < len(cmds) else rng.choice(cmds)
        avps = []
        flags = rng.choice([0x80, 0x00, 0xC0, 0x40, 0xA0])
        if subs:
            cls = rng.choice(subs)
            flags = 0x80 | (flags & 0x40) if cls.__name__.endswith("Request") else flags & 0x60
            defs = list(cls.avp_def)
            rng.shuffle(defs)
            for d in defs[:rng.randint(1, 8)]:
                e = dict_by_key.get((d.avp_code, d.vendor_id))
                if e is None:
                    continue
                for _ in range(rng.choice([1, 1, 2])):
                    r, _s = codec.random_avp(rng, entries, code_vendor_entry=e, max_depth=3)
                    try:
                        avps.append(codec.build(r).as_bytes())
                    except Exception:
                        pass
        for _ in range(rng.randint(0, 4)):
            r, _s = codec.random_avp(rng, entries, max_depth=3)
            try:
                avps.append(codec.build(r).as_bytes())
            except Exception:
                pass
        if rng.random() < 0.3:
            avps.append(raw_avp(rng.choice([99999990, 77]), rng.choice([0, 4242]), bytes(rng.getrandbits(8) for _ in range(rng.randint(0, 9)))))
        rng.shuffle(avps)
        body = b"".join(avps)
        c = code if rng.random() < 0.9 else 8388000 + i
        out.append(header(c, flags, rng.choice([0, 4, 16777238]), body=body))
    return out


def nested(depth, leaf=b""):
    """a Grouped AVP (Vendor-Specific-Application-Id, 260) nested depth times"""
    b = leaf
    for _ in range(depth):
        b = raw_avp(260, 0, b)
    return b


def typed_carriers(by_kind):
    """for each value kind: (command code, flags, avp code, vendor) of a typed command declaring an AVP of that kind,
    once as a scalar attribute and once as a list attribute where one exists"""
    out = {}
    for code, base in sorted(all_commands.items()):
        for cls in base.__subclasses__():
            for d in getattr(cls, "avp_def", ()):
                e = avpmod.get_avp_dictionary_entry(d.avp_code, d.vendor_id)
                if e is None:
                    continue
                kind = codec.kind_of(e)
                try:
                    is_list = isinstance(getattr(cls(), d.attr_name, None), list)
                except Exception:
                    is_list = False
                key = (kind, is_list)
                if key not in out:
                    out[key] = (code, 0x80 if cls.__name__.endswith("Request") else 0x00, d.avp_code, d.vendor_id, cls.__name__, d.attr_name)
    return out


def payload_variants(kind, n, rng):
    """payloads of length n for one AVP type: random, zeros, and type-specific invalid content"""
    outs = [bytes(rng.getrandbits(8) for _ in range(n)), b"\x00" * n, b"\xff" * n]
    if kind in ("utf8",):
        outs += [(b"\xc3\x28" + b"a" * n)[:n], (b"\xe2\x82" * n)[:n], (b"\xf8\x88\x80\x80\x80" * n)[:n], (b"ab\xed\xa0\x80" * n)[:n]]
    if kind == "addr" and n >= 2:
        for fam in (0, 1, 2, 3, 8, 0xFFFF, 15):
            rest = n - 2
            outs += [struct.pack(">H", fam) + bytes(rng.getrandbits(8) for _ in range(rest)), struct.pack(">H", fam) + (b"\xc3\x28" * rest)[:rest]]
    if kind == "group" and n >= 8:
        for L in BOUNDARY(n):
            outs.append((raw_avp(1, 0, b"", length=L) + b"\x00" * n)[:n])
            outs.append((raw_avp(1, 9, b"", length=L) + b"\x00" * n)[:n])
    return outs


def gen_inputs(tier, seed):
    """-> list of (class tag, bytes, ops)"""
    rng = random.Random(seed)
    entries = codec.dictionary()
    by_kind = {}
    for e in entries:
        by_kind.setdefault(codec.kind_of(e[2]), []).append(e)
    thorough = tier == "thorough"
    ins = []
    add = lambda tag, b, ops=("typed", "plain", "avp"): ins.append((tag, bytes(b), ops))
    # (a) uniformly random bytes; random bodies behind a plausible header
    for n in list(range(0, 64)) * (4 if thorough else 1) + [rng.randint(64, 2048) for _ in range(400 if thorough else 60)] + [65536, 65535, 40000][: 3 if thorough else 1]:
        add("random", bytes(rng.getrandbits(8) for _ in range(n)))
    known = sorted(all_commands)
    for _ in range(200000 if thorough else 400):
        n = rng.choice([0, 4, 8, 12, 16, 20, 24, 40, rng.randint(0, 300)])
        body = bytearray(rng.getrandbits(8) for _ in range(n))
        if n >= 8 and rng.random() < 0.7:          # plausible first AVP header
            body[4] = rng.choice([0x00, 0x40, 0x80, 0xC0])
            body[5:8] = rng.choice(BOUNDARY(n)).to_bytes(3, "big")
        add("random_body", header(rng.choice(known + [8388001]), rng.choice([0x80, 0, 0xC0]), body=bytes(body)), ("typed", "plain"))
    # valid messages
    msgs = valid_messages(rng, 5000 if thorough else 110, entries, by_kind)
    for m in msgs:
        add("valid", m, ("typed", "plain"))
    small = sorted(msgs, key=len)
    # (b) every prefix
    pick = small[:: max(1, len(small) // (300 if thorough else 14))]
    for m in pick:
        for k in range(len(m)):
            add("prefix", m[:k], ("typed", "plain"))
    # (c) bit flips: every single bit of a few messages, random multi-bit flips of all
    for m in small[: 40 if thorough else 3]:
        for bit in range(len(m) * 8):
            b = bytearray(m)
            b[bit // 8] ^= 1 << (bit % 8)
            add("bitflip1", b, ("typed", "plain"))
    for m in msgs:
        for _ in range(40 if thorough else 6):
            b = bytearray(m)
            for _ in range(rng.randint(1, 6)):
                i = rng.randrange(len(b) * 8)
                b[i // 8] ^= 1 << (i % 8)
            add("bitflipN", b, ("typed", "plain"))
    # (d) every length field replaced by boundary values
    for m in msgs:
        for L in BOUNDARY(len(m)):
            b = bytearray(m)
            b[1:4] = L.to_bytes(3, "big")
            add("msg_length", b, ("typed", "plain"))
        for off, n in avp_positions(m[20:], 20):
            for L in BOUNDARY(n):
                b = bytearray(m)
                b[off + 5:off + 8] = L.to_bytes(3, "big")
                add("avp_length", b, ("typed", "plain"))
            if rng.random() < 0.3:
                add("avp_alone", m[off:off + (n + 3) // 4 * 4], ("avp",))
                for L in BOUNDARY(n):
                    b = bytearray(m[off:off + (n + 3) // 4 * 4])
                    b[5:8] = L.to_bytes(3, "big")
                    add("avp_alone_length", b, ("avp",))
    # nesting up to 16 (valid, and with the innermost length corrupted)
    for d in range(1, 17):
        g = nested(d, raw_avp(266, 0, b"\x00\x00\x28\xaf"))
        add("nested", header(257, 0x80, body=g), ("typed", "plain"))
        add("nested", g, ("avp",))
        inner_off = len(g) - 12
        for L in BOUNDARY(12):
            b = bytearray(g)
            b[inner_off + 5:inner_off + 8] = L.to_bytes(3, "big")
            add("nested_length", header(272, 0x80, 4, body=bytes(b)), ("typed", "plain"))
            add("nested_length", b, ("avp",))
    # (e) every AVP type x payload length 0..20 x invalid content; alone, in an untyped command, and in a typed
    #     command that declares an AVP of that type (scalar and list attributes)
    carriers = typed_carriers(by_kind)
    for kind, pool in sorted(by_kind.items()):
        picks = [pool[0]] + ([pool[-1]] if len(pool) > 1 else []) + [p for p in pool if p[1] != 0][:1]
        for n in range(0, 21):
            for pl in payload_variants(kind, n, rng):
                for e in picks[: 3 if thorough else 2]:
                    a = raw_avp(e[0], e[1], pl)
                    add("payload:" + kind, a, ("avp",))
                    add("payload:" + kind, header(8388002, 0x80, body=a + a), ("typed",))
                for is_list in (False, True):
                    c = carriers.get((kind, is_list))
                    if c is not None:
                        a = raw_avp(c[2], c[3], pl)
                        add("payload_typed:" + kind, header(c[0], c[1], body=a + a), ("typed", "plain"))
    # a long message (linear work): many small AVPs, one big AVP
    for n_avps in ([8000] if thorough else [2000]):
        body = b"".join(raw_avp(1, 0, b"abcd") for _ in range(n_avps))
        add("long", header(272, 0x80, 4, body=body)[:65536], ("typed", "plain"))
    add("long", header(272, 0x80, 4, body=raw_avp(1, 0, b"x" * 65000)), ("typed", "plain"))
    add("long", header(8388003, 0x80, 4, body=nested(16, b"".join(raw_avp(260, 0, raw_avp(266, 0, b"\0\0\0\1")) for _ in range(1500)))), ("typed", "plain"))
    return ins


def _job(chunk):
    import logging
    logging.disable(logging.CRITICAL)
    rec = Recorder()
    rec.install()
    out = []
    traces = set()
    try:
        for tag, data, ops in chunk:
            probs, trs = decode_one(rec, data, ops)
            traces.update(trs)
            for sig, detail in probs:
                out.append((sig, detail, tag, data[:4096].hex(), list(ops)))
    finally:
        rec.uninstall()
    return out, traces


def line_cost(data, op):
    """number of executed source lines inside the library while decoding data"""
    count = [0]

    def tracer(frame, event, arg):
        if "diameter" not in frame.f_code.co_filename:
            return None
        count[0] += 1
        return tracer
    sys.settrace(tracer)
    try:
        try:
            m = Message.from_bytes(data, plain_msg=(op == "plain"))
            probs = []
            walk(m._avps or list(getattr(m, "_additional_avps", [])), probs)
        except ALLOWED:
            pass
    finally:
        sys.settrace(None)
    return count[0]


def run(tier, seed, only=None):
    ck = Check("C04", tier, seed, "exploration", evidence=only is None)
    ck.assumptions += ["'library decode errors' = diameter.message.packer.Error (incl. ConversionError) and AvpDecodeError",
                       "work is measured in AVP-decode calls and executed library source lines, not wall-clock time",
                       "Message.from_bytes is given the whole frame; a message length field that disagrees with the buffer is not by itself an error"]
    # ---- A. the cursor model ---------------------------------------------------------------------------
    mb = 48 if tier == "thorough" else 32
    cfg = tlc.cfg_text({"MaxBuf": mb, "MaxField": mb + 4}, spec="Spec", invariants=["InBuffer", "Bounded", "Outcomes"], properties=["Advance"])
    r = tlc.run("Unpack", cfg, "c04_mc", timeout=1800)
    tlc.must_ok(r, "Unpack")
    if r["violated"]:
        raise tlc.TlcError("Unpack violates %s" % r["violated"])
    cfg = tlc.cfg_text({"MaxBuf": 24, "MaxField": 28}, spec="Fair", properties=["Terminates"])
    r2 = tlc.run("Unpack", cfg, "c04_live", timeout=1800)
    tlc.must_ok(r2, "Unpack liveness")
    if r2["violated"]:
        raise tlc.TlcError("Unpack violates Terminates")
    ck.cov.update(states=r["distinct"], transitions=r["generated"], exhaustive=True, model_max_buffer=mb)
    # ---- B. the real decoder on hostile inputs ---------------------------------------------------------
    if only is not None:
        ins = only
    else:
        ins = gen_inputs(tier, seed)
    jobs = [ins[i::64] for i in range(64)]
    results = fan_out(_job, jobs)
    traces = set()
    for out, trs in results:
        traces |= trs
        for sig, detail, tag, hx, ops in out:
            ck.violation(sig, "%s (input class %s, %d octets)" % (detail, tag, len(hx) // 2), {"hex": hx, "ops": ops, "tag": tag})
    # ---- C. malformed payloads must raise the decode error: Wire!PayloadOk, evaluated by TLC, says which are malformed ----
    if only is None:
        rng = random.Random(seed + 4)
        entries = codec.dictionary()
        by_kind = {}
        for e in entries:
            by_kind.setdefault(codec.kind_of(e[2]), []).append(e)
        cases = []
        for kind in ("i32", "u32", "i64", "u64", "f32", "f64", "time", "utf8", "addr"):
            pool = by_kind.get(kind, [])
            if not pool:
                continue
            e = pool[0]
            seen_pl = set()
            for n in range(0, 21):
                for pl in payload_variants(kind, n, rng) + ([bytes([f]) for f in (0, 1, 2, 5, 8)] if kind == "addr" and n == 1 else []):
                    if pl not in seen_pl:
                        seen_pl.add(pl)
                        cases.append((kind, e, pl))
        verdicts = tlc.evaluate("WireEval", [{"op": "payload", "k": k, "p": list(pl)} for k, e, pl in cases], "c04_payload", timeout=1800)
        n_bad = 0
        for (kind, e, pl), v in zip(cases, verdicts):
            if v["ok"]:
                continue
            n_bad += 1
            try:
                a = Avp.from_bytes(raw_avp(e[0], e[1], pl))
                val = a.value
            except ALLOWED:
                continue
            except BaseException as ex:
                ck.violation("value_raised:%s:%s" % (kind, type(ex).__name__), "%s payload %s: reading the value raised %r" % (kind, pl.hex(), ex),
                             {"hex": raw_avp(e[0], e[1], pl).hex(), "ops": ["avp"], "tag": "payload_ok:" + kind})
                continue
            ck.violation("malformed_payload_accepted:%s" % kind, "%s payload %s (%d octets) is malformed for its type but .value returned %r instead of raising the decode error" % (
                kind, pl.hex(), len(pl), val), {"hex": raw_avp(e[0], e[1], pl).hex(), "ops": ["avp"], "tag": "payload_ok:" + kind, "expect_value_error": True})
        ck.cov["payloads_judged_by_PayloadOk"] = len(cases)
        ck.cov["payloads_malformed"] = n_bad
        if n_bad < 50:
            raise tlc.TlcError("vacuity: Wire!PayloadOk called only %d of %d payloads malformed" % (n_bad, len(cases)))
    # cursor traces validated by TLC against Unpack
    tl = sorted(traces, key=lambda t: (len(t[2]), t[1], t[0]))
    small = [t for t in tl if len(t[2]) <= 64]
    big = [t for t in tl if len(t[2]) > 64]
    sel = small + big[:20]
    validated = rejected = 0
    B = 8000
    for off in range(0, len(sel), B):
        chunk = sel[off:off + B]
        p = os.path.join(OUT, "c04_tr_%d.json" % off)
        recs = [{"mode": t[0], "len": t[1], "ev": [{"v": v, "L": L, "after": a} for v, L, a in t[2]], "outcome": "error" if t[3] != "ok" else "ok"} for t in chunk]
        # binding self-test: two deliberately corrupted copies (cursor off by 4; error outcome turned into ok) must be rejected
        canary = []
        good = next((r for r in recs if r["ev"] and r["ev"][-1]["after"] >= 0), None)
        bad = next((r for r in recs if r["outcome"] == "error" and r["ev"]), None)
        if good is not None:
            c = json.loads(json.dumps(good))
            c["ev"][-1]["after"] += 4
            canary.append(c)
        if bad is not None:
            c = json.loads(json.dumps(bad))
            c["ev"][-1]["after"] = c["len"]
            c["outcome"] = "ok"
            canary.append(c)
        with open(p, "w") as f:
            json.dump(recs + canary, f)
        cfg = tlc.cfg_text({"MaxBuf": 0, "MaxField": 0}, spec="TSpec", invariants=["InBuffer", "Bounded"], constraints=["Record"], postcondition="Accepted")
        rr = tlc.run("Trace_C04", cfg, "c04_tv_%d" % off, workers=1, env={"TRACES": p}, timeout=3000, dfs_queue=True)
        tlc.must_ok(rr, "Trace_C04")
        if rr["violated"]:
            ck.violation("cursor_invariant:%s" % "+".join(rr["violated"]), "a recorded cursor trace violates %s" % rr["violated"], {"traces": p})
        rej = re.findall(r'<<"REJECT", (\d+), (\d+)>>', rr["out"])
        got_canary = {int(i) for i, _ in rej if int(i) > len(chunk)}
        if got_canary != set(range(len(chunk) + 1, len(chunk) + len(canary) + 1)):
            raise tlc.TlcError("binding self-test failed: corrupted cursor traces %r were not all rejected (%r)" % (canary, got_canary))
        rej = [(i, pos) for i, pos in rej if int(i) <= len(chunk)]
        ck.count("corrupted_traces_rejected_by_TLC", len(canary))
        rejected += len(rej)
        validated += len(chunk) - len(rej)
        for i, pos in rej[:5]:
            t = chunk[int(i) - 1]
            ck.violation("cursor_trace_rejected", "decoder cursor trace is not a behaviour of Unpack: buffer %d octets, events %r, outcome %s; matched %s steps" % (
                t[1], list(t[2])[:8], t[3], pos), {"trace": {"mode": t[0], "len": t[1], "ev": [list(e) for e in t[2]], "outcome": t[3]}})
    # linear work in executed lines: doubling the input at most doubles the work (+ slack)
    unit = raw_avp(260, 0, raw_avp(266, 0, b"\0\0\0\1")) + raw_avp(1, 0, b"user") + raw_avp(8, 0, b"\x00\x01\x7f\x00\x00\x01")
    costs = {}
    for op, code in (("typed", 272), ("plain", 8388004)):
        c = [line_cost(header(code, 0x80, 4, body=unit * k), op) for k in (100, 200, 400, 800)]
        costs[op] = c
        for a, b in zip(c, c[1:]):
            if b > 2.2 * a + 200:
                ck.violation("superlinear_lines:%s" % op, "executed lines %r for bodies of 100/200/400/800 units" % c, {"op": op})
                break
    ck.cov["evaluations"] = len(ins)
    ck.cov["distinct_nontrivial"] = len({d for _t, d, _o in ins if len(d) >= 8})
    ck.cov["rule"] = "one evaluation = one byte string run through its decoding entry points (Message.from_bytes typed/plain, Avp.from_bytes), .value and str() of every decoded AVP; distinct by byte string; non-trivial = at least one AVP header long"
    by_tag = {}
    for t, _d, _o in ins:
        by_tag[t.split(":")[0]] = by_tag.get(t.split(":")[0], 0) + 1
    ck.cov["inputs_by_class"] = by_tag
    ck.cov["cursor_traces_distinct"] = len(tl)
    ck.cov["cursor_traces_validated_by_TLC"] = validated
    ck.cov["cursor_traces_rejected"] = rejected
    ck.cov["cursor_traces_with_error_outcome"] = sum(1 for t in tl if t[3] != "ok")
    ck.cov["executed_lines_100_200_400_800_units"] = costs
    ck.sample({"class": ins[0][0], "hex": ins[0][1][:40].hex()})
    if tl:
        t = tl[len(tl) // 2]
        ck.sample({"cursor_trace": {"mode": t[0], "len": t[1], "ev": [list(e) for e in t[2]][:6], "outcome": t[3]}})
    return ck.finish()


def replay(path, seed):
    body = json.load(open(path))
    rp = body.get("replay", body)
    if rp.get("expect_value_error"):
        try:
            val = Avp.from_bytes(bytes.fromhex(rp["hex"])).value
        except ALLOWED:
            print("replayed: reading the value raises the decode error")
            return 0
        print("replayed: .value returned %r" % (val,))
        print("VIOLATION property=C04 replay=%s" % path)
        return 1
    if "hex" in rp:
        return run("quick", seed, only=[(rp.get("tag", "replay"), bytes.fromhex(rp["hex"]), tuple(rp.get("ops", ("typed", "plain", "avp"))))])
    return run("quick", body.get("seed", seed))
