"""C17 — T-flag duplicates of answered requests are rejected, no others (Mon_C17.tla)"""
from . import nodecommon as nc
from .c17_plan import PROFILE, plans, ASSUME, enum_plans


def run(tier, seed):
    mc, sim = plans(tier)
    ck = nc.run_property("C17", tier, seed, "Inv17", PROFILE, mc, sim, 1500 if tier == "thorough" else 240, ASSUME, enum_plan=enum_plans(tier))
    return ck.finish()


def replay(path, seed):
    return nc.replay_file("C17", path)
