"""Shared check plumbing: verdicts, known findings, evidence files, replay files."""
from __future__ import annotations

import hashlib
import json
import os
import re
import sys
import time

VERIF = os.path.dirname(os.path.dirname(os.path.abspath(__file__)))
OUT = os.path.join(VERIF, "out")
EVID = os.path.join(VERIF, "evidence")
FINDINGS = os.path.join(VERIF, "KNOWN_FINDINGS.txt")


def load_findings():
    """-> (open: dict[(pid, sig)] -> text, fixed: list[str])"""
    op, fixed = {}, []
    if not os.path.exists(FINDINGS):
        return op, fixed
    for line in open(FINDINGS):
        line = line.strip()
        if not line or line.startswith("#"):
            continue
        if line.startswith("open:"):
            m = re.match(r"open:\s+property=(\S+)\s+sig=(\S+)\s*(.*)", line)
            if m:
                op[(m.group(1), m.group(2))] = m.group(3)
        elif line.startswith("fixed:"):
            fixed.append(line)
    return op, fixed


class Check:
    """Context of one check run."""

    def __init__(self, pid: str, tier: str, seed: int, level: str, evidence: bool = True):
        self.write_evidence = evidence       # (a replay of one stored input does not overwrite the evidence of the last full run)
        self.pid = pid
        self.tier = tier
        self.seed = seed
        self.level = level
        self.t0 = time.time()
        self.violations: list[dict] = []     # unlisted violations
        self.known: dict[str, dict] = {}     # sig -> first occurrence
        self.drift: list[str] = []
        self.cov: dict = {"samples": []}
        self.assumptions: list[str] = []
        self.notes: list[str] = []
        self.open, self.fixed = load_findings()
        self._seen_sig = set()
        self.model_conformance = True
        os.makedirs(os.path.join(OUT, "replays"), exist_ok=True)

    # -- coverage counters ------------------------------------------------
    def count(self, key: str, n: int = 1):
        self.cov[key] = self.cov.get(key, 0) + n

    def sample(self, obj, limit: int = 6):
        if len(self.cov["samples"]) < limit:
            self.cov["samples"].append(obj)

    def note(self, s: str):
        self.notes.append(s)
        print("NOTE " + s)

    # -- verdicts -----------------------------------------------------------
    def violation(self, sig: str, detail: str, replay: dict | None = None):
        """A property violation observed on the real code (or on a model whose
        counterexample was confirmed on the code)."""
        if (self.pid, sig) in self.open:
            if sig not in self.known:
                self.known[sig] = {"detail": detail}
            return
        if sig in self._seen_sig:
            return
        self._seen_sig.add(sig)
        body = {"property": self.pid, "sig": sig, "detail": detail, "seed": self.seed, "replay": replay}
        dig = hashlib.sha1(json.dumps(body, sort_keys=True, default=str).encode()).hexdigest()[:10]
        path = os.path.join(OUT, "replays", "%s-%s.json" % (self.pid, dig))
        with open(path, "w") as f:
            json.dump(body, f, indent=1, default=str)
        self.violations.append({"sig": sig, "detail": detail, "path": path})

    def drift_note(self, s: str):
        self.model_conformance = False
        if len(self.drift) < 20:
            self.drift.append(s)

    def finish(self) -> int:
        wall = time.time() - self.t0
        cov = dict(self.cov)
        if not cov.get("samples"):
            cov["samples"] = ["(none recorded)"]
        cov["model_conformance"] = self.model_conformance
        if self.drift:
            cov["drift"] = self.drift
        if self.notes:
            cov["notes"] = self.notes[:40]
        cov["known_findings_reconfirmed"] = sorted(self.known)
        ev = {"property_id": self.pid, "tier": self.tier, "seed": self.seed, "level": self.level,
              "coverage": cov, "assumptions": self.assumptions, "wall_s": round(wall, 2),
              "violations": len(self.violations)}
        if self.write_evidence:
            os.makedirs(EVID, exist_ok=True)
            with open(os.path.join(EVID, self.pid + ".json"), "w") as f:
                json.dump(ev, f, indent=1, default=str)
        for d in self.drift:
            print("DRIFT " + d)
        for (pid, sig), text in sorted(self.open.items()):
            if pid != self.pid:
                continue
            if sig in self.known:
                print("KNOWN-FINDING: property=%s sig=%s %s" % (pid, sig, text))
            else:
                # a listed finding that no longer reproduces is not an alarm; say so
                print("NOTE listed finding not reproduced in this run: property=%s sig=%s" % (pid, sig))
        for v in self.violations:
            print("DETAIL property=%s sig=%s %s" % (self.pid, v["sig"], v["detail"][:600]))
            print("VIOLATION property=%s replay=%s" % (self.pid, v["path"]))
        print("%s %s tier=%s seed=%d wall=%.1fs %s" % (
            "FAIL" if self.violations else "PASS", self.pid, self.tier, self.seed, wall,
            json.dumps({k: v for k, v in cov.items() if isinstance(v, (int, bool))})))
        sys.stdout.flush()
        return 1 if self.violations else 0


def fan_out(fn, jobs: list, procs: int = 16):
    """Run fn(job) over jobs in a process pool (fork), preserving order."""
    import multiprocessing as mp
    if procs <= 1 or len(jobs) <= 1:
        return [fn(j) for j in jobs]
    ctx = mp.get_context("fork")
    with ctx.Pool(min(procs, len(jobs))) as pool:
        return pool.map(fn, jobs, chunksize=1)
