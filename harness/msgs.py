"""Concrete Diameter messages for scenarios, and their abstraction for traces.

Builders use the real codec of /repo (the codec itself is checked by C01-C04, C20).
"""
from __future__ import annotations

import struct

from diameter.message import Message, Avp, constants as K
from diameter.message.commands import (
    CapabilitiesExchangeRequest, CapabilitiesExchangeAnswer, DeviceWatchdogRequest,
    DeviceWatchdogAnswer, DisconnectPeerRequest, DisconnectPeerAnswer,
    CreditControlRequest, CreditControlAnswer, AccountingRequest, AccountingAnswer,
    ReAuthRequest, ReAuthAnswer)

CMD = {257: "CE", 280: "DW", 282: "DP"}


def cer(host, realm="r1", hbh=1, e2e=1, auth=(4,), acct=(), ip="10.0.0.9", vendor_apps=()):
    m = CapabilitiesExchangeRequest()
    m.header.hop_by_hop_identifier = hbh
    m.header.end_to_end_identifier = e2e
    m.origin_host = host.encode()
    m.origin_realm = realm.encode()
    m.host_ip_address = ip
    m.vendor_id = 99
    m.product_name = "peer"
    m.auth_application_id = list(auth)
    m.acct_application_id = list(acct)
    return m


def cea(host, realm="r1", hbh=1, e2e=1, rc=2001, auth=(4,), acct=(), with_origin=True):
    m = CapabilitiesExchangeAnswer()
    m.header.hop_by_hop_identifier = hbh
    m.header.end_to_end_identifier = e2e
    m.result_code = rc
    if with_origin:
        m.origin_host = host.encode()
        m.origin_realm = realm.encode()
    m.host_ip_address = "10.0.0.9"
    m.vendor_id = 99
    m.product_name = "peer"
    m.auth_application_id = list(auth)
    m.acct_application_id = list(acct)
    return m


def dwr(host, realm="r1", hbh=1, e2e=1):
    m = DeviceWatchdogRequest()
    m.header.hop_by_hop_identifier = hbh
    m.header.end_to_end_identifier = e2e
    m.origin_host = host.encode()
    m.origin_realm = realm.encode()
    return m


def dwa(host, realm="r1", hbh=1, e2e=1, rc=2001):
    m = DeviceWatchdogAnswer()
    m.header.hop_by_hop_identifier = hbh
    m.header.end_to_end_identifier = e2e
    m.result_code = rc
    m.origin_host = host.encode()
    m.origin_realm = realm.encode()
    return m


def dpr(host, realm="r1", hbh=1, e2e=1, cause=0):
    m = DisconnectPeerRequest()
    m.header.hop_by_hop_identifier = hbh
    m.header.end_to_end_identifier = e2e
    m.origin_host = host.encode()
    m.origin_realm = realm.encode()
    m.disconnect_cause = cause
    return m


def dpa(host, realm="r1", hbh=1, e2e=1, rc=2001):
    m = DisconnectPeerAnswer()
    m.header.hop_by_hop_identifier = hbh
    m.header.end_to_end_identifier = e2e
    m.result_code = rc
    m.origin_host = host.encode()
    m.origin_realm = realm.encode()
    return m


def sid_of(hbh, e2e):
    """Session-Id of the environment's request with these identifiers (Mon_C20!SidOf is the same function)"""
    return "s;%d;%d" % (hbh, e2e)


def ccr(host, realm="r1", dest_realm="r1", hbh=1, e2e=1, app=4, T=False, session=None, pad=0, drop=()):
    """Credit-Control-Request with all required AVPs (minus those named in `drop`), a Session-Id and one Proxy-Info
    derived from its identifiers."""
    from diameter.message.commands.credit_control import ProxyInfo
    if session is None:
        session = sid_of(hbh, e2e)
    m = CreditControlRequest()
    m.header.application_id = app
    m.header.hop_by_hop_identifier = hbh
    m.header.end_to_end_identifier = e2e
    m.header.is_retransmit = bool(T)
    m.session_id = session
    m.origin_host = host.encode()
    m.origin_realm = realm.encode()
    if dest_realm is not None:
        m.destination_realm = dest_realm.encode()
    m.auth_application_id = app
    m.service_context_id = "ctx"
    m.cc_request_type = 1
    m.cc_request_number = 0
    m.proxy_info = [ProxyInfo(proxy_host=b"px%d" % hbh, proxy_state=b"st%d" % e2e)]
    for d in drop:
        setattr(m, d, None)
    if pad:
        m.append_avp(Avp.new(K.AVP_USER_NAME, value="x" * pad))
    return m


def cca(req: Message, host, realm="r1", rc=2001):
    a = req.to_answer()
    a.origin_host = host.encode()
    a.origin_realm = realm.encode()
    a.session_id = req.session_id
    a.result_code = rc
    a.auth_application_id = req.header.application_id
    a.cc_request_type = 1
    a.cc_request_number = 0
    return a


def raw_answer(code, app, hbh, e2e, host=None, realm="r1", rc=2001, flags=0):
    """A generic answer (no typed class needed) for arbitrary command codes."""
    avps = []
    if rc is not None:
        avps.append(Avp.new(K.AVP_RESULT_CODE, value=rc))
    if host is not None:
        avps.append(Avp.new(K.AVP_ORIGIN_HOST, value=host.encode()))
        avps.append(Avp.new(K.AVP_ORIGIN_REALM, value=realm.encode()))
    body = b"".join(a.as_bytes() for a in avps)
    return hdr_bytes(code, flags & 0x7F, app, hbh, e2e, 20 + len(body)) + body


def raw_request(code, app, hbh, e2e, host="peer1.r1", realm="r1", dest_realm="r1", flags=0x80, extra=()):
    avps = [Avp.new(K.AVP_SESSION_ID, value="s;raw")]
    if host is not None:
        avps.append(Avp.new(K.AVP_ORIGIN_HOST, value=host.encode()))
        avps.append(Avp.new(K.AVP_ORIGIN_REALM, value=realm.encode()))
    if dest_realm is not None:
        avps.append(Avp.new(K.AVP_DESTINATION_REALM, value=dest_realm.encode()))
    avps += list(extra)
    body = b"".join(a.as_bytes() for a in avps)
    return hdr_bytes(code, flags | 0x80, app, hbh, e2e, 20 + len(body)) + body


def hdr_bytes(code, flags, app, hbh, e2e, length, version=1):
    return struct.pack(">IIIII", (version << 24) | (length & 0xFFFFFF), ((flags & 0xFF) << 24) | (code & 0xFFFFFF),
                       app & 0xFFFFFFFF, hbh & 0xFFFFFFFF, e2e & 0xFFFFFFFF)


def set_length(frame: bytes, length: int) -> bytes:
    return bytes([frame[0]]) + struct.pack(">I", length & 0xFFFFFF)[1:] + frame[4:]


def undecodable(hbh=1, size=40) -> bytes:
    """A frame with a correct header length whose body cannot be decoded (AVP length runs off the end)."""
    assert size >= 28 and size % 4 == 0
    body = struct.pack(">II", 263, (0x40 << 24) | 0xFFFFF0) + b"\xAB" * (size - 28)
    return hdr_bytes(272, 0x80, 4, hbh, hbh, size) + body


def undecodable2(hbh=1, size=40) -> bytes:
    """A correctly framed CER whose Vendor-Specific-Application-Id (grouped) has a payload that is no AVP sequence: the AVP
    framing of the message is fine, the conversion into the typed command fails (AvpDecodeError, not a packer error)."""
    assert size >= 32 and size % 4 == 0
    n = size - 28
    body = struct.pack(">II", 260, (0x40 << 24) | (8 + n)) + b"\xAB" * n
    return hdr_bytes(257, 0x80, 0, hbh, hbh, size) + body


# ----------------------------------------------------------------------
def split_frames(buf: bytes):
    """Split a byte log written by the node into whole frames (plus remainder)."""
    out = []
    pos = 0
    while len(buf) - pos >= 20:
        ln = int.from_bytes(buf[pos + 1:pos + 4], "big")
        if ln < 20 or len(buf) - pos < ln:
            break
        out.append(buf[pos:pos + ln])
        pos += ln
    return out, buf[pos:]


def find1(m: Message, code, vendor=0):
    for a in m.avps:
        if a.code == code and a.vendor_id == vendor:
            return a
    return None


def xdigest(m: Message) -> dict:
    """What a message carries beyond the header and result: identity, addresses, vendor, product, application ids,
    Origin-State-Id, Session-Id, Proxy-Info, Failed-AVP members, Error-Message (plain decoding)."""
    def all_(code, vendor=0):
        return [a for a in m.avps if a.code == code and a.vendor_id == vendor]

    def val(a, default):
        try:
            v = a.value
        except Exception:
            return default
        if isinstance(v, bytes):
            v = v.decode("utf8", "replace")
        return v

    def one(code, default):
        a = all_(code)
        return val(a[0], default) if a else default
    pis = []
    for a in all_(K.AVP_PROXY_INFO):
        kids = val(a, [])
        h = [val(k, "") for k in kids if k.code == K.AVP_PROXY_HOST]
        st = [val(k, "") for k in kids if k.code == K.AVP_PROXY_STATE]
        pis.append("%s/%s" % (h[0] if h else "", st[0] if st else ""))
    fa = []
    for a in all_(K.AVP_FAILED_AVP):
        for k in val(a, []):
            fa.append([k.code, k.vendor_id])
    return {"orlm": one(K.AVP_ORIGIN_REALM, ""), "ips": [val(a, (0, ""))[1] for a in all_(K.AVP_HOST_IP_ADDRESS)],
            "vid": one(K.AVP_VENDOR_ID, -1), "prod": one(K.AVP_PRODUCT_NAME, ""),
            "auth": sorted(val(a, -1) for a in all_(K.AVP_AUTH_APPLICATION_ID)), "acct": sorted(val(a, -1) for a in all_(K.AVP_ACCT_APPLICATION_ID)),
            "osi": one(K.AVP_ORIGIN_STATE_ID, -1), "sid": one(K.AVP_SESSION_ID, ""), "pi": pis,
            "nfa": len(all_(K.AVP_FAILED_AVP)), "fa": fa, "noh": len(all_(K.AVP_ORIGIN_HOST)), "nrc": len(all_(K.AVP_RESULT_CODE))}


def absmsg(frame: bytes) -> dict:
    """Abstract a wire frame for traces (plain decoding: independent of the typed classes)."""
    m = Message.from_bytes(frame, plain_msg=True)
    h = m.header
    def val(code, default):
        a = find1(m, code)
        if a is None:
            return default
        try:
            v = a.value
        except Exception:
            return default
        if isinstance(v, bytes):
            v = v.decode("utf8", "replace")
        return v
    return {
        "cmd": CMD.get(h.command_code, "APP"), "code": h.command_code, "req": 1 if h.is_request else 0,
        "hbh": h.hop_by_hop_identifier, "e2e": h.end_to_end_identifier, "app": h.application_id,
        "T": 1 if h.is_retransmit else 0, "P": 1 if h.is_proxyable else 0, "E": 1 if h.is_error else 0,
        "oh": val(K.AVP_ORIGIN_HOST, ""), "rlm": val(K.AVP_DESTINATION_REALM, ""),
        "rc": val(K.AVP_RESULT_CODE, 0),
        "dc": val(K.AVP_DISCONNECT_CAUSE, -1),
        "x": xdigest(m),
    }
