"""Concurrent callers of the (sequential) codec under every schedule with a preemption bound.

The node encodes and decodes from several threads at once (one writer and one reader thread per
connection, application threads), so "encoding produces exactly the reference octets" has to hold
for every interleaving of callers too.  `explore_calls` runs k virtual threads, each performing its
own list of codec calls, with a scheduling point before every source line of the studied functions,
under every schedule with at most P preemptions; each call's result must equal the result the same
call gives when run alone (which the caller has already compared with the TLA+ reference).
"""
from __future__ import annotations

from . import simrt, explore


def studied_functions(objs):
    """{code object: name} of the python functions found in the given classes / functions."""
    out = {}
    for o in objs:
        if isinstance(o, type):
            for n, f in vars(o).items():
                f = getattr(f, "__func__", f)
                if isinstance(f, property):
                    for g in (f.fget, f.fset):
                        if g is not None and hasattr(g, "__code__"):
                            out[g.__code__] = "%s.%s" % (o.__name__, n)
                elif hasattr(f, "__code__"):
                    out[f.__code__] = "%s.%s" % (o.__name__, n)
        elif hasattr(o, "__code__"):
            out[o.__code__] = o.__name__
    return out


def run_once(jobs, studied, policy):
    """jobs: list (one per thread) of lists of zero-argument callables.  -> (results per thread, exits)"""
    s = simrt.Scheduler()
    simrt.install(s)
    s.policy = policy
    s.tracefn = explore.make_line_tracer(s, studied, call_boundaries=False)
    res = [[None] * len(j) for j in jobs]

    def worker(i):
        for k, fn in enumerate(jobs[i]):
            try:
                res[i][k] = ("ok", fn())
            except Exception as e:          # a codec error is a result like any other (compared with the sequential one)
                res[i][k] = ("raise", type(e).__name__)

    for i in range(len(jobs)):
        simrt.Thread(target=worker, args=(i,)).start()
    try:
        s.run()
    finally:
        s.teardown()
        simrt.install(None)
    return res, [(n, e) for n, e, _ in s.exits]


def explore_calls(make_jobs, studied, max_preempt, max_runs=20000):
    """make_jobs() -> jobs (fresh objects for every execution).  Yields (schedule, results, exits, expected)."""
    # the sequential results: every thread's calls run alone, in order, outside the runtime
    expected = []
    for j in make_jobs():
        row = []
        for fn in j:
            try:
                row.append(("ok", fn()))
            except Exception as e:
                row.append(("raise", type(e).__name__))
        expected.append(row)
    n = 0
    for (res, exits), pol in explore.explore(lambda p: run_once(make_jobs(), studied, p), max_preempt, max_runs=max_runs):
        n += 1
        yield [r[1] for r in pol.records], res, exits, expected
