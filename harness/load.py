"""Import /repo/src/diameter/node/* bound to the simrt shims (once per process)."""
from __future__ import annotations

import importlib
import logging
import os
import sys

REPO_SRC = os.environ.get("DIAMETER_SRC", "/repo/src")

_loaded = None


def load():
    """-> namespace with .node, .peer, .application, ._helpers modules (shimmed)
    and .message (real)."""
    global _loaded
    if _loaded is not None:
        return _loaded
    os.environ.setdefault("TZ", "UTC")
    if REPO_SRC not in sys.path:
        sys.path.insert(0, REPO_SRC)
    logging.disable(logging.CRITICAL)
    from . import simrt
    import diameter.message  # real stdlib bindings for the codec
    import diameter.message.commands
    import diameter.message.avp.grouped
    for k in [k for k in sys.modules if k == "diameter.node" or k.startswith("diameter.node.")]:
        del sys.modules[k]
    saved = {}
    names = dict(simrt.SHIMS)
    names["sctp"] = simrt.sctp_shim
    for name, shim in names.items():
        saved[name] = sys.modules.get(name)
        sys.modules[name] = shim
    try:
        node_pkg = importlib.import_module("diameter.node")
        ns = type("NS", (), {})()
        ns.pkg = node_pkg
        ns.node = sys.modules["diameter.node.node"]
        ns.peer = sys.modules["diameter.node.peer"]
        ns.application = sys.modules["diameter.node.application"]
        ns.helpers = sys.modules["diameter.node._helpers"]
        ns.message = sys.modules["diameter.message"]
        ns.constants = sys.modules["diameter.message.constants"]
    finally:
        for name, mod in saved.items():
            if mod is None:
                sys.modules.pop(name, None)
            else:
                sys.modules[name] = mod
    assert ns.helpers.StoppableThread.__mro__[1] is simrt.Thread
    _loaded = ns
    return ns
