"""Case generation for the codec properties (C01-C04, C20): every case is a pair
(python value for the library, value specification for the TLA+ reference codec Wire.tla).
Specifications are built without `struct`: integers as 16-bit limbs, floats from IEEE fields
(math.ldexp), text as code points, addresses as octets."""
from __future__ import annotations

import datetime
import ipaddress
import math
import random

from . import REPO_SRC  # noqa: F401  (sys.path set up by the package)
from diameter.message import Avp, Message, constants as K
from diameter.message.avp import avp as avpmod
from diameter.message.avp.dictionary import AVP_DICTIONARY, AVP_VENDOR_DICTIONARY

TYPES = {"AvpOctetString": "bytes", "AvpUtf8String": "utf8", "AvpInteger32": "i32", "AvpInteger64": "i64",
         "AvpUnsigned32": "u32", "AvpUnsigned64": "u64", "AvpFloat32": "f32", "AvpFloat64": "f64", "AvpTime": "time",
         "AvpAddress": "addr", "AvpGrouped": "group", "Avp": "raw"}


def limbs(v, n):
    return [(v >> (16 * (n - 1 - i))) & 0xFFFF for i in range(n)]


def dictionary():
    """-> list of (code, vendor, entry) for every dictionary entry"""
    out = [(c, 0, e) for c, e in AVP_DICTIONARY.items()]
    for v, d in AVP_VENDOR_DICTIONARY.items():
        out += [(c, v, e) for c, e in d.items()]
    return out


def kind_of(entry):
    return TYPES.get(entry["type"].__name__, "raw")


# ---------------------------------------------------------------------- values
def f32_from_fields(s, e, m):
    if e == 255:
        return (float("-inf") if s else float("inf")) if m == 0 else float("nan")
    x = math.ldexp(m, -149) if e == 0 else math.ldexp((1 << 23) + m, e - 127 - 23)
    return -x if s else x


def f64_from_fields(s, e, m):
    if e == 2047:
        return (float("-inf") if s else float("inf")) if m == 0 else float("nan")
    x = math.ldexp(m, -1074) if e == 0 else math.ldexp((1 << 52) + m, e - 1023 - 52)
    return -x if s else x


def v_int(v, n):
    return v, {"t": "int", "neg": v < 0, "limbs": limbs(abs(v), n)}


def v_uint(v, n):
    return v, {"t": "uint", "limbs": limbs(v, n)}


def v_f32(s, e, m):
    if e == 255 and m != 0:
        s, m = 0, 0x400000        # the canonical quiet NaN of float('nan')
    return f32_from_fields(s, e, m), {"t": "f32", "s": s, "e": e, "m": [m >> 16, m & 0xFFFF]}


def v_f64(s, e, m):
    if e == 2047 and m != 0:
        s, m = 0, 1 << 51
    return f64_from_fields(s, e, m), {"t": "f64", "s": s, "e": e, "m": [m >> 48, (m >> 32) & 0xFFFF, (m >> 16) & 0xFFFF, m & 0xFFFF]}


def v_utf8(text):
    return text, {"t": "utf8", "cps": [ord(c) for c in text]}


def v_bytes(b):
    return bytes(b), {"t": "bytes", "b": list(b)}


def v_time(secs):
    dt = datetime.datetime(1970, 1, 1) + datetime.timedelta(seconds=secs)      # naive, process TZ = UTC
    return dt, {"t": "time", "neg": secs < 0, "limbs": limbs(abs(secs), 2)}


def v_addr(fam, raw, text=None):
    if text is not None:          # a specific textual form of the address (e.g. IPv6 with an embedded dotted quad, RFC 4291 2.2 form 3)
        return text, {"t": "addr", "fam": fam, "b": list(raw)}
    if fam == 1:
        text = ".".join(str(x) for x in raw)
    elif fam == 2:
        text = ipaddress.IPv6Address(bytes(raw)).compressed
        if "." in text or ":" not in text:
            text = ipaddress.IPv6Address(bytes(raw)).exploded
    else:
        text = bytes(raw).decode("ascii")
    return text, {"t": "addr", "fam": fam, "b": list(raw)}


def addr_equal(decoded, fam, text):
    dfam, dtext = decoded
    if dfam != fam:
        return False
    if fam == 2:
        return ipaddress.IPv6Address(dtext) == ipaddress.IPv6Address(text)
    return dtext == text


BOUNDS = {
    "i32": [v_int(v, 2) for v in (-2 ** 31, -2 ** 31 + 1, -1, 0, 1, 2 ** 31 - 2, 2 ** 31 - 1, -65536, 65535, 256)],
    "i64": [v_int(v, 4) for v in (-2 ** 63, -2 ** 63 + 1, -1, 0, 1, 2 ** 63 - 1, -2 ** 32, 2 ** 32, 2 ** 31)],
    "u32": [v_uint(v, 2) for v in (0, 1, 2 ** 31 - 1, 2 ** 31, 2 ** 32 - 2, 2 ** 32 - 1, 65535, 65536)],
    "u64": [v_uint(v, 4) for v in (0, 1, 2 ** 63 - 1, 2 ** 63, 2 ** 64 - 2, 2 ** 64 - 1, 2 ** 32 - 1, 2 ** 32)],
    "f32": [v_f32(s, e, m) for s in (0, 1) for (e, m) in ((0, 0), (0, 1), (0, 0x7FFFFF), (1, 0), (254, 0x7FFFFF), (255, 0), (255, 1), (127, 0), (126, 0x400000), (130, 0x123456))],
    "f64": [v_f64(s, e, m) for s in (0, 1) for (e, m) in ((0, 0), (0, 1), (0, (1 << 52) - 1), (1, 0), (2046, (1 << 52) - 1), (2047, 0), (2047, 5), (1023, 0), (1022, 1 << 51), (1029, 0x123456789ABCD))],
    "time": [v_time(s) for s in (-61505152, -61505151, -1, 0, 1, 1700000000, 2085978495, 2085978496, 2085978497, 2085974895, 2085974896, 2085974897,
                                 2145916800, 4233462142, 4233462143)],
    "addr": [v_addr(1, [0, 0, 0, 0]), v_addr(1, [255, 255, 255, 255]), v_addr(1, [10, 0, 17, 5]), v_addr(2, [0] * 16), v_addr(2, [255] * 16),
             v_addr(2, [0x20, 0x01, 0x0d, 0xb8] + [0] * 11 + [1]), v_addr(2, [0] * 10 + [255, 255, 1, 2, 3, 4]), v_addr(8, list(b"358401234567")), v_addr(8, list(b"1")),
             # RFC 4291 2.2 form 3: IPv6 text with an embedded dotted quad (mapped, compatible, NAT64) - what inet_ntop itself produces for these ranges
             v_addr(2, [0] * 10 + [255, 255, 10, 40, 93, 32], "::ffff:10.40.93.32"), v_addr(2, [0] * 12 + [10, 0, 0, 1], "::10.0.0.1"),
             v_addr(2, [0, 0x64, 0xff, 0x9b] + [0] * 8 + [192, 0, 2, 33], "64:ff9b::192.0.2.33"),
             v_addr(2, [0x20, 0x01, 0x0d, 0xb8] + [0] * 8 + [1, 2, 3, 4], "2001:db8::1.2.3.4")],
    "utf8": [v_utf8(t) for t in ("", "a", "\x00", "\x7f", "\x80", "߿", "ࠀ", "￿", "\U00010000", "\U0010ffff", "héllo wörld € \U0001f600", "x" * 257)],
    "bytes": [v_bytes(bytes(range(n))) for n in (0, 1, 2, 3, 4, 5, 7, 8, 9)],
}
OUT_OF_DOMAIN = {
    # (values that are no integers at all - a fraction, digits as text - are outside every integer domain)
    "i32": [v_int(v, 2) for v in (2 ** 31, -2 ** 31 - 1, 2 ** 32)] + [(19.99, None), ("42", None)],
    "i64": [v_int(v, 4) for v in (2 ** 63, -2 ** 63 - 1)] + [(19.99, None), ("42", None)],
    # the last four lie outside 1900-01-01 .. 2172-03-15 (more than 32 bits away from either NTP era's start)
    "time": [v_time(s) for s in (-61505153, -62000000, -2208988800, 4233462144, 4294967295, -2208988801, -3000000000)] +
            [(v_time(s)[0], None) for s in (6380945792, 7000000000)],      # (beyond the reference's 32-bit limbs: outside by definition)
    "u32": [(-1, None), (2 ** 32, None), (19.99, None), ("42", None)],
    "u64": [(-1, None), (2 ** 64, None), (19.99, None), ("42", None)],
    "utf8": [("\ud800", {"t": "utf8", "cps": [0xD800]})],
    "addr": [("1.2.3.4.5", None), ("12:zz::1", None)],
}


def random_value(kind, rng: random.Random, depth=0, entries=None):
    if kind == "i32":
        return v_int(rng.choice([rng.randint(-2 ** 31, 2 ** 31 - 1), rng.randint(-300, 300)]), 2)
    if kind == "i64":
        return v_int(rng.choice([rng.randint(-2 ** 63, 2 ** 63 - 1), rng.randint(-70000, 70000)]), 4)
    if kind == "u32":
        return v_uint(rng.choice([rng.randint(0, 2 ** 32 - 1), rng.randint(0, 70000)]), 2)
    if kind == "u64":
        return v_uint(rng.choice([rng.randint(0, 2 ** 64 - 1), rng.randint(0, 2 ** 33)]), 4)
    if kind == "f32":
        return v_f32(rng.randint(0, 1), rng.choice([0, 1, 127, 128, 254, rng.randint(0, 254)]), rng.getrandbits(23))
    if kind == "f64":
        return v_f64(rng.randint(0, 1), rng.choice([0, 1, 1023, 1024, 2046, rng.randint(0, 2046)]), rng.getrandbits(52))
    if kind == "utf8":
        n = rng.choice([0, 1, 3, 10, 40])
        cps = []
        for _ in range(n):
            c = rng.choice([rng.randint(0, 127), rng.randint(128, 0x7FF), rng.randint(0x800, 0xFFFF), rng.randint(0x10000, 0x10FFFF)])
            if 0xD800 <= c <= 0xDFFF:
                c = 0x20AC
            cps.append(c)
        return v_utf8("".join(map(chr, cps)))
    if kind == "time":
        return v_time(rng.choice([rng.randint(-61505152, 4233462143), rng.randint(0, 2 * 10 ** 9), rng.randint(2085970000, 2085990000)]))
    if kind == "addr":
        f = rng.choice([1, 1, 2, 2, 8])
        if f == 1:
            return v_addr(1, [rng.randint(0, 255) for _ in range(4)])
        if f == 2:
            return v_addr(2, [rng.choice([0, 0, rng.randint(0, 255)]) for _ in range(16)])
        return v_addr(8, [rng.randint(48, 57) for _ in range(rng.randint(1, 15))])
    if kind == "group":
        return None     # built by random_avp
    n = rng.choice([0, 1, 2, 3, 4, 5, 6, 7, 8, 13, 64, 255]) if kind in ("bytes", "raw") else 0
    return v_bytes(bytes(rng.getrandbits(8) for _ in range(n)))


def random_avp(rng, entries, depth=0, max_depth=3, code_vendor_entry=None):
    """-> (python Avp-building recipe, spec).  recipe = dict(code, vendor, value, M, P) with value a python value
    (for grouped: list of recipes)"""
    code, vendor, entry = code_vendor_entry or rng.choice(entries)
    kind = kind_of(entry)
    M = rng.choice([None, True, False])
    P = rng.choice([None, None, True, False])
    expM = bool(entry.get("mandatory")) if M is None else M
    expP = bool(P)
    if kind == "group":
        kids = []
        if depth < max_depth:
            for _ in range(rng.choice([0, 1, 2, 3])):
                kids.append(random_avp(rng, entries, depth + 1, max_depth))
        recipe = {"code": code, "vendor": vendor, "kind": kind, "value": [k[0] for k in kids], "M": M, "P": P}
        spec = {"code": limbs(code, 2), "vendor": limbs(vendor, 2), "M": expM, "P": expP, "val": {"t": "group", "avps": [k[1] for k in kids]}}
        return recipe, spec
    pv, vs = random_value(kind, rng)
    recipe = {"code": code, "vendor": vendor, "kind": kind, "value": pv, "M": M, "P": P}
    spec = {"code": limbs(code, 2), "vendor": limbs(vendor, 2), "M": expM, "P": expP, "val": vs}
    return recipe, spec


def build(recipe):
    """recipe -> real Avp via the public constructor Avp.new"""
    if recipe.get("raw"):       # no dictionary entry: the generic class, flags as given
        a = Avp(code=recipe["code"], vendor_id=recipe["vendor"], payload=recipe["value"])
        a.is_mandatory = bool(recipe["M"])
        a.is_private = bool(recipe["P"])
        return a
    if recipe["kind"] == "group":
        return Avp.new(recipe["code"], recipe["vendor"], value=[build(k) for k in recipe["value"]], is_mandatory=recipe["M"], is_private=recipe["P"])
    return Avp.new(recipe["code"], recipe["vendor"], value=recipe["value"], is_mandatory=recipe["M"], is_private=recipe["P"])


def values_equal(kind, decoded, pv):
    if kind in ("f32", "f64"):
        if isinstance(pv, float) and math.isnan(pv):
            return isinstance(decoded, float) and math.isnan(decoded)
        return decoded == pv and math.copysign(1, decoded) == math.copysign(1, pv)
    if kind == "addr":
        fam = 2 if (":" in pv) else 1 if ("." in pv) else 8
        return addr_equal(decoded, fam, pv)
    return decoded == pv


def check_decoded(avp, recipe, spec):
    """compare a decoded AVP with what was encoded (recursively) -> list of problems"""
    out = []
    if avp.code != recipe["code"] or avp.vendor_id != recipe["vendor"]:
        out.append("code/vendor differ")
    expflags = (0x80 if recipe["vendor"] else 0) | (0x40 if spec["M"] else 0) | (0x20 if spec["P"] else 0)
    if avp.flags != expflags:
        out.append("flags %#x != %#x" % (avp.flags, expflags))
    if recipe["kind"] == "group":
        kids = avp.value
        if len(kids) != len(recipe["value"]):
            out.append("group has %d members, expected %d" % (len(kids), len(recipe["value"])))
        else:
            for k, r, s in zip(kids, recipe["value"], spec["val"]["avps"]):
                out += check_decoded(k, r, s)
    else:
        try:
            v = avp.value
        except Exception as e:
            return out + ["value raised %s" % type(e).__name__]
        if not values_equal(recipe["kind"], v, recipe["value"]):
            out.append("value %r != %r" % (v, recipe["value"]))
    return out
