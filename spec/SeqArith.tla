------------------------------ MODULE SeqArith ------------------------------
(***************************************************************************)
(* Arithmetic facts of C16 on full-width identifiers, in 16-bit limbs      *)
(* (TLC integers are 32-bit): successor with wrap to 1 for 32- and 64-bit  *)
(* counters, the end-to-end initial value (low 12 bits of the start time   *)
(* in the high 12 bits), and the textual form of a session id.             *)
(* Used by TLC as an evaluator over values recorded from the real code.    *)
(***************************************************************************)
EXTENDS Naturals, Sequences, Json, IOUtils, TLC

B == 65536

\* a value is a sequence of limbs, most significant first
IsMax(v) == \A i \in 1..Len(v) : v[i] = B - 1
IsZero(v) == \A i \in 1..Len(v) : v[i] = 0
One(n) == [i \in 1..n |-> IF i = n THEN 1 ELSE 0]

RECURSIVE Inc(_, _)
Inc(v, i) == IF i = 0 THEN v                        \* overflow cannot happen: IsMax is tested first
             ELSE IF v[i] = B - 1 THEN Inc([v EXCEPT ![i] = 0], i - 1)
             ELSE [v EXCEPT ![i] = @ + 1]

Succ(v) == IF IsMax(v) THEN One(Len(v)) ELSE Inc(v, Len(v))

\* observed: sequence of successive draws; result: indices i whose successor is wrong, or that are zero
BadSteps(obs) == {i \in 1..Len(obs) : IsZero(obs[i]) \/ (i < Len(obs) /\ obs[i + 1] # Succ(obs[i]))}

\* end-to-end initial value: ((now << 20) | r) & 0xffffffff with r in 1..0xfffff
\* now given as its low 12 bits n12 (the only bits that survive), r as <<r_hi4, r_lo16>>
E2EInit(n12, rhi, rlo) == <<n12 * 16 + rhi, rlo>>

\* session id: identity ; %08x(start time) ; %08x(high 32) ; %08x(low 32) [; optional ...]
Hex(d) == IF d < 10 THEN 48 + d ELSE 87 + d                     \* ASCII '0'..'9','a'..'f'
Hex4(x) == <<Hex(x \div 4096), Hex((x \div 256) % 16), Hex((x \div 16) % 16), Hex(x % 16)>>
Hex8(hi, lo) == Hex4(hi) \o Hex4(lo)
RECURSIVE JoinSemi(_)
JoinSemi(parts) == IF Len(parts) = 1 THEN parts[1] ELSE parts[1] \o <<59>> \o JoinSemi(Tail(parts))
SessionId(ident, t, c, opt) ==     \* t = <<hi,lo>>, c = <<l1,l2,l3,l4>>, ident/opt[i] = sequences of char codes
    JoinSemi(<<ident, Hex8(t[1], t[2]), Hex8(c[1], c[2]), Hex8(c[3], c[4])>> \o opt)

Cases == JsonDeserialize(IOEnv.CASES)
Eval(c) ==
    CASE c.op = "badsteps" -> [bad |-> BadSteps(c.obs)]
      [] c.op = "e2einit"  -> [v |-> E2EInit(c.n12, c.rhi, c.rlo)]
      [] c.op = "succ"     -> [v |-> Succ(c.v)]
      [] c.op = "session"  -> [s |-> SessionId(c.ident, c.t, c.c, c.opt)]
ASSUME JsonSerialize(IOEnv.OUT, [i \in 1..Len(Cases) |-> Eval(Cases[i])])

VARIABLE x
EvInit == x = 0
EvNext == UNCHANGED x
=============================================================================
