----------------------------- MODULE Trace_C05 -----------------------------
(***************************************************************************)
(* Code -> spec for C05.  (1) Executions of the real work_read_queue,      *)
(* recorded per framing-loop iteration, are validated against Framing      *)
(* with H = 20 (batch: tid selects the trace).  The C05 monitor itself is  *)
(* Mon_C05.tla.                                                            *)
(***************************************************************************)
EXTENDS Framing, Json, IOUtils, TLCExt

Traces == JsonDeserialize(IOEnv.TRACES)   \* sequence of [frames, cuts, ev, delivered, final, maxiter]
NT == Len(Traces)

\* ------------------------------------------------------ (1) trace validation
VARIABLES tid, l
tvars == <<vars, tid, l>>
Ev == Traces[tid].ev
SetOf(s) == {s[i] : i \in 1..Len(s)}

TInit == /\ tid \in 1..NT
         /\ l = 1
         /\ InitWith(Traces[tid].frames, SetOf(Traces[tid].cuts))

TRecv == /\ l <= Len(Ev) /\ Ev[l].ev = "recv" /\ IoRecv /\ l' = l + 1 /\ UNCHANGED tid

TIter == /\ l <= Len(Ev) /\ Ev[l].ev = "iter"
         /\ LET e == Ev[l] IN
              /\ st = "run" /\ Len(rbuf) = e.n
              /\ IF e.n < H THEN RdShort /\ e.closed = 1
                 ELSE /\ (Aligned(rbuf) => e.d = frames[rbuf[1][1]].declared)
                      /\ RdIterD(e.d)
                      /\ delivered' = (IF e.del >= 0 THEN Append(delivered, e.del) ELSE delivered)
                      /\ (e.closed = 1) <=> (st' = "closed")
         /\ l' = l + 1 /\ UNCHANGED tid

TEnd == /\ l <= Len(Ev) /\ Ev[l].ev = "end"
        /\ st = Ev[l].st /\ net = <<>> /\ (st = "closed" \/ rq = <<>>)
        /\ l' = l + 1 /\ UNCHANGED <<vars, tid>>

\* 6 s of silence pass (the reader's 5 s poll expires at least once): the logged buffer length shows nothing was dropped
TTimeout == /\ l <= Len(Ev) /\ Ev[l].ev = "timeout"
            /\ RdPollTimeout /\ Len(rbuf) = Ev[l].n
            /\ l' = l + 1 /\ UNCHANGED tid

TSilent == RdDequeue /\ UNCHANGED <<tid, l>>

TNext == TRecv \/ TIter \/ TEnd \/ TTimeout \/ TSilent
TSpec == TInit /\ [][TNext]_tvars

ASSUME TLCSet(1, [i \in 1..NT |-> 0])
Record == TLCSet(1, [TLCGet(1) EXCEPT ![tid] = IF @ < l THEN l ELSE @])
Accepted == \A i \in 1..NT :
              \/ TLCGet(1)[i] = Len(Traces[i].ev) + 1
              \/ PrintT(<<"REJECT", i, TLCGet(1)[i]>>)
=============================================================================
