------------------------------ MODULE Mon_C05 ------------------------------
(***************************************************************************)
(* The C05 monitor: an operator over the observations of one execution of  *)
(* the real reader (frames fed, ids delivered, final state, largest number *)
(* of consecutive loop iterations that consumed nothing).  TLC evaluates   *)
(* it for every recorded execution and writes the violated clauses.        *)
(***************************************************************************)
EXTENDS Framing, Json, IOUtils

Traces == JsonDeserialize(IOEnv.TRACES)
NT == Len(Traces)

\* ------------------------------------------------------------- (2) monitor
Verdict(t) ==
    LET fr == t.frames IN
    (IF t.maxiter > 1 THEN {"spin_no_progress"} ELSE {}) \cup
    (IF t.final = "dead" THEN {"reader_died"} ELSE {}) \cup
    (IF t.final = "stuck" THEN {"reader_stopped_silently"} ELSE {}) \cup
    (IF WellLengthedOf(fr) /\ t.final \in {"wait", "closed"} /\ t.delivered # GoodIdsOf(fr) THEN {"delivery_mismatch"} ELSE {}) \cup
    (IF WellLengthedOf(fr) /\ t.final = "closed" THEN {"closed_on_wellformed_stream"} ELSE {}) \cup
    (IF ~WellLengthedOf(fr) /\ t.final \in {"wait", "closed"} /\ ~IsPrefix(GoodBeforeOf(fr), t.delivered) THEN {"frames_before_bad_length_lost"} ELSE {})

ASSUME JsonSerialize(IOEnv.VERDICTS, [i \in 1..NT |-> Verdict(Traces[i])])


EvInit == InitWith(<<>>, {})
EvNext == UNCHANGED vars
=============================================================================
