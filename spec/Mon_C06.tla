------------------------------ MODULE Mon_C06 ------------------------------
(* C06: until its capabilities exchange has succeeded a connection processes nothing but      *)
(* capabilities-exchange messages of the expected direction (anything else is neither         *)
(* answered nor shown to an application, and the connection is not used for routing); an      *)
(* inbound CER gets the specified CEA and outcome; an outbound connection sends its CER       *)
(* first, becomes ready only on a 2001 CEA and is closed on any other result or when the      *)
(* expected CEA / CER does not arrive within the configured timeout.                          *)
(* Readings: "succeeded" = a 2001 CEA was sent / received on the connection; the timeout is   *)
(* measured from establishment or the last received bytes (the code restarts it on any        *)
(* received bytes; accepted); behaviour after a second CER is not judged.                     *)
EXTENDS MonBase

Init == [i |-> 0, viol |-> {}, t |-> 0, reg |-> {},
         dir   |-> [c \in CIds |-> ""],
         est   |-> [c \in CIds |-> FALSE],    \* transport established
         succ  |-> [c \in CIds |-> FALSE],    \* capabilities exchange succeeded
         dead  |-> [c \in CIds |-> FALSE],    \* socket closed by the node / remote gone
         lastRx |-> [c \in CIds |-> 0],       \* establishment or last received bytes
         cerSeen |-> [c \in CIds |-> FALSE],  \* an inbound connection has had its first CER
         ceaSeen |-> [c \in CIds |-> FALSE],
         opeer |-> [c \in CIds |-> ""],       \* dialled peer
         ipeer |-> [c \in CIds |-> ""]]       \* identity claimed by the first CER

IsCer(m) == m.cmd = "CE" /\ m.req
IsCea(m) == m.cmd = "CE" /\ ~m.req
Common(m, reg) == (NodeAuthR(reg) \cap ToSet(m.auth)) \cup (NodeAcctR(reg) \cap ToSet(m.acct))
\* what a CEA of the node carries besides its result: identity, addresses, vendor, product, application ids (judged on the
\* content digest `x` of transmitted messages; model messages carry none)
HasX(m) == "x" \in DOMAIN m
CeaContentOk(m, reg) == ~HasX(m) \/
  /\ m.x.noh = 1 /\ m.x.orlm = MCfg.node.realm
  /\ (MCfg.node.listen => m.x.ips = MCfg.node.ips)
  /\ m.x.vid = MCfg.node.vendor /\ m.x.prod = MCfg.node.product
  /\ ToSet(m.x.auth) = NodeAuthR(reg) /\ Len(m.x.auth) = Cardinality(NodeAuthR(reg))
  /\ ToSet(m.x.acct) = NodeAcctR(reg) /\ Len(m.x.acct) = Cardinality(NodeAcctR(reg))
Expect(m, reg) == IF m.oh = "" THEN "any"
             ELSE IF m.oh \notin MPeers THEN "3010"
             ELSE IF Common(m, reg) = {} /\ ~m.relay THEN "5010" ELSE "2001"

\* ---- what the step's feed implies -------------------------------------------
FirstCerIdx(ms) == IF \E j \in 1..Len(ms) : IsCer(ms[j]) THEN CHOOSE j \in 1..Len(ms) : IsCer(ms[j]) /\ \A k \in 1..(j - 1) : ~IsCer(ms[k]) ELSE 0
\* (a CEA without Origin-Host is malformed; what it causes is not judged)
GoodCea(m) == IsCea(m) /\ m.oh # ""
FirstCeaIdx(ms) == IF \E j \in 1..Len(ms) : GoodCea(ms[j]) THEN CHOOSE j \in 1..Len(ms) : GoodCea(ms[j]) /\ \A k \in 1..(j - 1) : ~GoodCea(ms[k]) ELSE 0

StepN(M, st) ==
  LET M0  == [M EXCEPT !.i = @ + 1]
      now == st.snap.t
      feed == IsFeed(st)
      c0  == IF feed THEN st.act.c ELSE 0
      ms  == IF feed THEN st.act.ms ELSE <<>>
      out == st.out
      pre == feed /\ ~M0.succ[c0]                                     \* the fed connection had not succeeded before this step
      ci  == IF pre /\ M0.dir[c0] = "in" /\ ~M0.cerSeen[c0] THEN FirstCerIdx(ms) ELSE 0      \* first CER of an inbound connection
      ai  == IF pre /\ M0.dir[c0] = "out" /\ ~M0.ceaSeen[c0] THEN FirstCeaIdx(ms) ELSE 0     \* first (well-formed) CEA of an outbound connection
      ncer == Len(SelectSeq(ms, IsCer))
      inTime == now - M0.lastRx[c0] <= (IF M0.dir[c0] = "out" THEN Eff(M0.opeer[c0], "cea") ELSE MCfg.node.cer)
      exp == IF ci # 0 /\ ncer = 1 /\ inTime THEN Expect(ms[ci], M0.reg) ELSE "none"   \* (a CER after the timeout, or a second CER, is not judged)
      sent2001(c) == \E j \in 1..Len(out) : out[j].ev = "tx" /\ out[j].c = c /\ IsCea(out[j].m) /\ out[j].m.rc = 2001
      got2001 == pre /\ M0.dir[c0] = "out" /\ \E j \in 1..Len(ms) : GoodCea(ms[j]) /\ ms[j].rc = 2001
      \* success reached in this step
      succNow(c) == M0.succ[c] \/ (M0.dir[c] = "in" /\ sent2001(c)) \/ (c = c0 /\ got2001)
      closedNow(c) == IsClosed(st.snap, c)
      \* (a) nothing but CE traffic is answered / transmitted before success
      badTx == {j \in 1..Len(out) : out[j].ev = "tx" /\ out[j].c \in CIds /\ ~M0.succ[out[j].c] /\
                  LET c == out[j].c
                      before == \E k \in 1..(j - 1) : out[k].ev = "tx" /\ out[k].c = c /\ IsCea(out[k].m) /\ out[k].m.rc = 2001
                  IN IF M0.dir[c] = "in" THEN ~(IsCea(out[j].m) \/ before)
                     ELSE ~(IsCer(out[j].m) \/ (c = c0 /\ got2001))}
      \* (b) applications see only requests received after success
      okIdx(j) == M0.succ[c0] \/ (succNow(c0) /\ \E k \in 1..(j - 1) : IsCer(ms[k]) \/ GoodCea(ms[k]))
      badApp == {j \in 1..Len(out) : out[j].ev = "app_req" /\ feed /\
                   ~\E k \in 1..Len(ms) : ms[k].req /\ Key(ms[k]) = Key(out[j].m) /\ okIdx(k)}
      \* (c) outcome of the first CER on an inbound connection
      cea(rc) == \E j \in 1..Len(out) : out[j].ev = "tx" /\ out[j].c = c0 /\ IsCea(out[j].m) /\ out[j].m.rc = rc /\ Key(out[j].m) = Key(ms[ci])
      ceaOk(rc) == \E j \in 1..Len(out) : out[j].ev = "tx" /\ out[j].c = c0 /\ IsCea(out[j].m) /\ out[j].m.rc = rc /\ out[j].m.oh = MCfg.node.host
      vOutcome ==
        CASE exp = "2001" -> (IF ~cea(2001) THEN {"cer_known_peer_not_answered_2001"} ELSE {}) \cup
                             (IF cea(2001) /\ ~ceaOk(2001) THEN {"cea_without_node_identity"} ELSE {}) \cup
                             (IF cea(2001) /\ Len(ms) = 1 /\ CstOf(st.snap, c0) \notin READY /\ ~closedNow(c0) THEN {"cer_accepted_but_not_ready"} ELSE {})
          [] exp = "3010" -> (IF ~cea(3010) THEN {"cer_unknown_peer_not_answered_3010"} ELSE {}) \cup
                             (IF ~closedNow(c0) THEN {"unknown_peer_not_closed"} ELSE {}) \cup
                             (IF CstOf(st.snap, c0) \in READY THEN {"unknown_peer_ready"} ELSE {})
          [] exp = "5010" -> (IF ~cea(5010) THEN {"cer_no_common_app_not_answered_5010"} ELSE {}) \cup
                             (IF CstOf(st.snap, c0) \in READY THEN {"no_common_app_ready"} ELSE {})
          [] OTHER -> {}
      vContent == IF exp \in {"2001", "3010", "5010"}
                  THEN {"cea_content_wrong" : j \in {k \in 1..Len(out) : out[k].ev = "tx" /\ out[k].c = c0 /\ IsCea(out[k].m) /\
                                                                          Key(out[k].m) = Key(ms[ci]) /\ ~CeaContentOk(out[k].m, M0.reg)}}
                  ELSE {}
      \* (d) outbound: ready only on 2001 CEA; any other result closes
      vCea == IF ai # 0 /\ inTime /\ ms[ai].rc # 2001 /\ ~closedNow(c0) THEN {"cea_rejected_not_closed"} ELSE {}
      vReady == {"ready_without_successful_exchange" : c \in {x \in CIds : M0.dir[x] # "" /\ CstOf(st.snap, x) \in READY /\ ~succNow(x)}}
      \* (e) timeouts: established, not succeeded, silent for longer than timeout (+ one wake-up period of slack)
      to(c, hi) == IF M0.dir[c] = "out"
                   THEN Eff(M0.opeer[c], "cea")
                   ELSE LET a == MCfg.node.cer  b == Eff(M0.ipeer[c], "cer") IN IF hi THEN (IF a > b THEN a ELSE b) ELSE (IF a < b THEN a ELSE b)
      late == {c \in CIds : M0.dir[c] # "" /\ M0.est[c] /\ ~succNow(c) /\ ~M0.dead[c] /\ ~closedNow(c) /\ ~((feed \/ IsRx(st)) /\ c = st.act.c) /\
                 now >= M0.lastRx[c] + to(c, TRUE) + MCfg.node.wakeup + 1}
      estNow(c) == M0.est[c] \/ (st.act.a = "connect_result" /\ st.act.c = c /\ st.act.err = 0)
      lr(c) == IF st.act.a = "connect_result" /\ st.act.c = c THEN now ELSE M0.lastRx[c]     \* bytes arriving in the same second are unordered
      early == {c \in CIds : M0.dir[c] = "out" /\ estNow(c) /\ ~M0.succ[c] /\ ~M0.dead[c] /\ closedNow(c) /\
                 M0.opeer[c] \in MPeers /\ st.snap.peers[M0.opeer[c]].reason = 51 /\ now - lr(c) <= to(c, FALSE)}
      sigs == {"non_ce_traffic_answered_before_ce" : j \in badTx} \cup {"app_saw_request_before_ce" : j \in badApp} \cup
              vOutcome \cup vContent \cup vCea \cup vReady \cup {"ce_timeout_not_enforced" : c \in late} \cup {"ce_timeout_too_early" : c \in early}
      \* ---- state update
      M1 == [M0 EXCEPT !.viol = @ \cup {[sig |-> s, at |-> M0.i] : s \in sigs}, !.t = now, !.reg = RegNext(@, st)]
      M2 == [M1 EXCEPT !.succ = [c \in CIds |-> succNow(c)],
                       !.cerSeen = [c \in CIds |-> @[c] \/ (c = c0 /\ ci # 0)],
                       !.ceaSeen = [c \in CIds |-> @[c] \/ (c = c0 /\ ai # 0)],
                       !.ipeer = [c \in CIds |-> IF c = c0 /\ ci # 0 /\ ms[ci].oh \in MPeers THEN ms[ci].oh ELSE @[c]],
                       !.lastRx = [c \in CIds |-> IF (feed \/ IsRx(st)) /\ c = st.act.c THEN now ELSE @[c]]]
      OnOut(A, e) ==
        CASE e.ev = "accept" -> [A EXCEPT !.dir[e.c] = "in", !.est[e.c] = TRUE, !.lastRx[e.c] = now]
          [] e.ev = "dial"   -> [A EXCEPT !.dir[e.c] = "out", !.opeer[e.c] = e.p, !.est[e.c] = (e.r = "ok"), !.lastRx[e.c] = now,
                                          !.dead[e.c] = (e.r = "fail")]
          [] e.ev = "sock_close" -> [A EXCEPT !.dead[e.c] = TRUE]
          [] OTHER -> A
      M3 == FoldLeft(OnOut, M2, out)
  IN CASE st.act.a = "connect_result" -> [M3 EXCEPT !.est[st.act.c] = (st.act.err = 0), !.lastRx[st.act.c] = now,
                                                    !.dead[st.act.c] = @ \/ st.act.err # 0]
       [] st.act.a \in {"peer_close", "peer_reset"} -> [M3 EXCEPT !.dead[st.act.c] = TRUE]
       [] OTHER -> M3
Step(M, s0) == StepN(M, Norm(s0))
=============================================================================
