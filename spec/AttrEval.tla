------------------------------ MODULE AttrEval ------------------------------
(* TLC as evaluator of AttrMap over the tables read from the code and the generated cases *)
EXTENDS Integers, Sequences, FiniteSets, Json, IOUtils, TLC

Tab == JsonDeserialize(IOEnv.TABLES)
INSTANCE AttrMap WITH Tab <- Tab

Cases == JsonDeserialize(IOEnv.CASES)

SetToSeq2(S) == IF S = {} THEN <<>> ELSE LET RECURSIVE H(_) H(T) == IF T = {} THEN <<>> ELSE LET x == CHOOSE x \in T : TRUE IN <<x>> \o H(T \ {x}) IN H(S)

Eval(c) ==
  CASE c.op = "wellformed" -> [viol |-> SetToSeq2(Viol(Tab[c.cls]))]
    [] c.op = "gen"        -> [tree |-> Gen(c.cls, c.obj), canon |-> Canon(c.cls, c.obj), rt |-> RoundTrip(c.cls, c.obj)]
    [] c.op = "restore"    -> [obj |-> Restore(c.cls, c.tree)]
    [] c.op = "expose"     -> [attrs |-> Expose(c.tree)]

ASSUME JsonSerialize(IOEnv.OUT, [i \in 1..Len(Cases) |-> Eval(Cases[i])])

VARIABLE x
EvInit == x = 0
EvNext == UNCHANGED x
=============================================================================
