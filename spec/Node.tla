-------------------------------- MODULE Node --------------------------------
(***************************************************************************)
(* The diameter node (diameter/node/node.py, peer.py, application.py) as   *)
(* the code performs it.  The whole node state is one record S; every      *)
(* method of the code is an operator from state to state, so sequential    *)
(* code is operator composition:                                           *)
(*                                                                         *)
(*   thread steps   IoIter        one iteration of Node._handle_connections*)
(*                  RdStep(c)     PeerConnection.work_read_queue: one chunk*)
(*                  StopStep      Node.stop() in its caller's thread, from *)
(*                                one sleep / join to the next             *)
(*                  WrStep(c)     PeerConnection.work_write_queue: one msg *)
(*   environment    EnvConnect, EnvFeed, EnvPeerClose, EnvPeerReset,       *)
(*                  EnvConnectResult, EnvTick, AppSubmit, ...              *)
(*                                                                         *)
(* A thread step runs from one blocking call to the next (the grain at     *)
(* which the deterministic runtime switches threads).  Quiesce(S) runs     *)
(* thread steps in a fixed priority order until none is enabled; in        *)
(* "atomic" use every environment action is followed by Quiesce, which is  *)
(* the grain of the history-quantified properties (C06-C13, C17, C19).     *)
(*                                                                         *)
(* Observations (S.out) are what the properties talk about: bytes written  *)
(* to sockets (tx), messages dispatched, handler invocations, socket       *)
(* closes, dials.  The model describes what the code DOES, including       *)
(* behaviour the properties forbid; the properties live in Mon_*.tla.      *)
(***************************************************************************)
EXTENDS Integers, Sequences, FiniteSets, TLC

CONSTANTS NodeCfg,   \* [host, realm, idle, dwa, cer, cea, wakeup, retx, validate]
          PeerCfg,   \* host |-> [realm, persistent, always, rwait, addrs, default, idle, dwa, cer, cea]  (0 = unset)
          AppCfg,    \* app  |-> [id, auth, acct, peers, realms, kind, handler]
          AppOrder,  \* sequence of app names in registration order
          MaxConn,   \* connection objects that may ever be created
          PeerOrder, \* sequence of configured peers in configuration order
          Pinned     \* names of pinned (pre-fix) behaviours to model instead of the current tree's; {} = current tree

Peers == DOMAIN PeerCfg
Apps  == DOMAIN AppCfg
ConnIds == 1..MaxConn

READYSTATES == {"READY", "WAITDWA"}

\* disconnect reasons (peer.py)
R_DPR == 32  R_SHUTDOWN == 33  R_CLEAN == 34  R_SOCKFAIL == 48  R_GONE == 49
R_FAILCONNECT == 50  R_FAILCE == 51  R_CERREJ == 52  R_DWATO == 53  R_UNKNOWN == 64

\* ------------------------------------------------------------------ messages
\* cmd: "CE" | "DW" | "DP" | "APP";  typed: the command has a python class with avp_def
\* oh: Origin-Host ("" = absent), realm: Destination-Realm ("" = absent), rc: Result-Code (0 = absent)
\* miss: a required AVP other than Origin-Host / Destination-Realm is missing
\* (answers built for commands without a python class carry no AVPs: attributes set on them are not encoded)
Answer(m, rc) == [cmd |-> m.cmd, code |-> m.code, req |-> FALSE, hbh |-> m.hbh, e2e |-> m.e2e, app |-> m.app,
                  oh |-> IF m.typed THEN NodeCfg.host ELSE "", realm |-> "", rc |-> IF m.typed THEN rc ELSE 0,
                  T |-> FALSE, typed |-> m.typed, miss |-> FALSE]
Request(cmd, code, hbh, e2e) ==
                 [cmd |-> cmd, code |-> code, req |-> TRUE, hbh |-> hbh, e2e |-> e2e, app |-> 0,
                  oh |-> NodeCfg.host, realm |-> "", rc |-> 0, T |-> FALSE, typed |-> TRUE, miss |-> FALSE]

\* hasattr(msg, "origin_host"): typed classes declare it (value None when absent)
HasOriginAttr(m) == m.typed \/ m.oh # ""
\* validate_message_avps(msg) # []   (typed requests only)
RequiresRealm(m) == m.cmd = "APP"
MissingAvps(m) == m.typed /\ (m.miss \/ m.oh = "" \/ (RequiresRealm(m) /\ m.realm = ""))

\* ------------------------------------------------------------------ state
NoConnRec == [used |-> FALSE]
NewConn(dir, st, nodeName, t, c) ==
  [used |-> TRUE, dir |-> dir, st |-> st, nodeName |-> nodeName, hostId |-> "", originHost |-> "",
   added |-> FALSE,                        \* has an ident / is (was) in the node's tables
   lastRead |-> t, lastDwr |-> -1,
   sock |-> "open", connecting |-> FALSE, soErr |-> -1, sendErr |-> FALSE, stalled |-> FALSE,
   netIn |-> <<>>, remoteClosed |-> FALSE, recvErr |-> FALSE,
   readQ |-> <<>>, rdStop |-> FALSE, rdDone |-> FALSE, rdDl |-> t + 5, rdNew |-> TRUE,     \* New: has not reached its first queue.get yet
   writeQ |-> <<>>, wbuf |-> <<>>, wrStop |-> FALSE, wrDone |-> FALSE, wrDl |-> t + 5, wrNew |-> TRUE,
   \* hop-by-hop generators start at random values: distinct per connection, or (configuration samehbh) all the same
   hbh |-> IF NodeCfg.samehbh THEN 2000 ELSE 1000 * (c + 1)]

InitState ==
  [now |-> 0, life |-> "run",
   conn |-> [c \in ConnIds |-> NoConnRec], nconn |-> 0,
   backlog |-> <<>>,                       \* inbound sockets not yet accepted (connection ids reserved by the env)
   connections |-> <<>>, peerSockets |-> <<>>, socketPeers |-> {}, halfReady |-> {},
   peer |-> [p \in Peers |-> [conn |-> 0, reason |-> 0, lastConnect |-> -1, lastDisc |-> -1,
                             cnt |-> <<0, 0, 0, 0, 0, 0, 0, 0>>]],   \* Peer.counters: cer cea dwr dwa dpr dpa requests answers
   peerWait |-> <<>>,                      \* sequence of [h, ids]: _peer_waiting_answer in insertion order
   appWait |-> {},                         \* _app_waiting_answer: set of [hbh, e2e, app]
   originWait |-> {},                      \* _origin_waiting_answer: set of [hbh, e2e, oh]
   sentAns |-> <<>>,                       \* _sent_answers: sequence of [oh, ids]
   appReady |-> [a \in Apps |-> FALSE],
   reg |-> <<>>,                           \* applications registered after start (AppCfg[a].late), in the order of their add_application calls
   pipe |-> <<>>,
   io |-> [rlist |-> <<>>, wlist |-> <<>>, deadline |-> NodeCfg.wakeup, done |-> FALSE],
   e2e |-> 1000,
   frag |-> [c \in ConnIds |-> FALSE],     \* environment bookkeeping: the first part of a message was fed on c, the rest is due
   snd |-> <<>>,                           \* application threads blocked in send_request: [k, a, hbh, e2e, c, dl, st, ans]
   held |-> <<>>,                          \* requests delivered to "hold" applications: [a, c, m, answered]
   overflow |-> FALSE,                     \* the instance's MaxConn bound cut a dial short (such states are discarded)
   dialPlan |-> <<>>,                      \* outcomes the environment will give to the next connect() calls
   \* the thread that called Node.stop(): phase none | begin | wait | joinio | joinstats | done
   stop |-> [phase |-> "none", force |-> FALSE, wait |-> 0, until |-> 0, wake |-> 0, ioStop |-> FALSE, k |-> 0],
   listen |-> "open",                      \* the listening socket
   stats |-> [alive |-> TRUE, wake |-> 2, stop |-> FALSE],      \* Node._collect_stats: sleeps 2 s at a time, tests its stop flag after each
   \* ThreadingApplication: request queue, result queue, thread slots in use, the two consumer threads, worker threads
   tapp |-> [a \in Apps |-> [recvQ |-> <<>>, respQ |-> <<>>, slots |-> 0,
                             recv |-> [alive |-> TRUE, st |-> "get", dl |-> 3, cur |-> <<>>, stop |-> FALSE],   \* dl: end of the current queue.get(timeout=3) / put(timeout=5)
                             resp |-> [alive |-> TRUE, dl |-> 3, stop |-> FALSE],
                             procs |-> <<>>]],
   nproc |-> 0,
   nreq |-> [a \in Apps |-> 0],           \* handler invocations per application (the "alt" handler answers every second request only)
   lostOut |-> 0,
   out |-> <<>>]

Emit(S, e) == [S EXCEPT !.out = Append(@, e)]
SeqToSet(s) == {s[i] : i \in 1..Len(s)}
Without(s, x) == SelectSeq(s, LAMBDA y : y # x)
InSeq(x, s) == \E i \in 1..Len(s) : s[i] = x

\* ------------------------------------------------------------------ lookups
\* Node._find_connection_peer
PeerOf(S, c) == LET k == S.conn[c] IN
                IF k.nodeName \in Peers THEN k.nodeName
                ELSE IF k.hostId \in Peers THEN k.hostId ELSE ""

Eff(p, field, dflt) == IF p # "" /\ PeerCfg[p][field] # 0 THEN PeerCfg[p][field] ELSE dflt

\* _peer_waiting_answer is keyed by the connection and (hop-by-hop, end-to-end); the pinned behaviour F09 keyed it
\* by host identity and hop-by-hop identifier only
PwKey(S, c) == IF "F09" \in Pinned THEN S.conn[c].hostId ELSE c
PwId(m) == IF "F09" \in Pinned THEN m.hbh ELSE <<m.hbh, m.e2e>>
PwIdx(S, h) == IF \E i \in 1..Len(S.peerWait) : S.peerWait[i].h = h
               THEN CHOOSE i \in 1..Len(S.peerWait) : S.peerWait[i].h = h ELSE 0
SaIdx(S, oh) == IF \E i \in 1..Len(S.sentAns) : S.sentAns[i].oh = oh
                THEN CHOOSE i \in 1..Len(S.sentAns) : S.sentAns[i].oh = oh ELSE 0

\* ------------------------------------------------------------------ send_message / _record_answer
RecordAnswer(S, c, m) ==
  IF ~\E r \in S.originWait : r.hbh = m.hbh /\ r.e2e = m.e2e THEN S
  ELSE LET r  == CHOOSE r \in S.originWait : r.hbh = m.hbh /\ r.e2e = m.e2e
           i  == SaIdx(S, r.oh)
           S1 == IF i = 0 THEN [S EXCEPT !.sentAns = Append(@, [oh |-> r.oh, ids |-> <<>>])] ELSE S
           j  == SaIdx(S1, r.oh)
           app == Append(S1.sentAns[j].ids, m.e2e)
           cut == IF Len(app) > NodeCfg.retx THEN SubSeq(app, Len(app) - NodeCfg.retx + 1, Len(app)) ELSE app
       IN [S1 EXCEPT !.sentAns[j].ids = cut, !.originWait = @ \ {r}]

SendMessage(S, c, m) ==
  LET i  == PwIdx(S, PwKey(S, c))
      S1 == IF ~m.req /\ i # 0 /\ PwId(m) \in S.peerWait[i].ids
            THEN [S EXCEPT !.peerWait[i].ids = @ \ {PwId(m)}] ELSE S
      S2 == [S1 EXCEPT !.conn[c].writeQ = Append(@, m)]
  IN IF m.req THEN S2 ELSE RecordAnswer(S2, c, m)

NextHbh(S, c) == S.conn[c].hbh + 1
\* send_cer / send_dwr / send_dpr draw hop-by-hop from the connection and end-to-end from the node
SendNodeRequest(S, c, cmd, code) ==
  LET m  == Request(cmd, code, NextHbh(S, c), S.e2e + 1)
      S1 == [S EXCEPT !.conn[c].hbh = @ + 1, !.e2e = @ + 1]
  IN SendMessage(S1, c, m)

\* PeerConnection.close(signal_node)
ConnClose(S, c, signal) ==
  LET S1 == [S EXCEPT !.conn[c].st = "CLOSED", !.conn[c].rdStop = TRUE, !.conn[c].wrStop = TRUE]
  IN IF signal THEN [S1 EXCEPT !.pipe = Append(@, c)] ELSE S1

\* ------------------------------------------------------------------ registered applications
\* Node.add_application may be called at any time: applications marked `late` are registered by an environment action;
\* until then they are in none of the node's tables (self.applications, _peer_routes)
IsLateApp(a) == "late" \in DOMAIN AppCfg[a] /\ AppCfg[a].late
Reg(S) == {a \in Apps : ~IsLateApp(a)} \cup {S.reg[i] : i \in 1..Len(S.reg)}
RegOrder(S) == SelectSeq(AppOrder, LAMBDA a : ~IsLateApp(a)) \o S.reg
\* (a basic application's start() does nothing; the application is flagged ready at once if one of the peers it is given has a
\*  ready connection - pinned F13b: readiness was not looked at, the application stayed not ready until a connection became
\*  ready again)
EnvAddApp(S, a) ==
  LET S1 == [S EXCEPT !.reg = Append(@, a)]
      rdy == \E p \in AppCfg[a].peers : S.peer[p].conn # 0 /\ S.conn[S.peer[p].conn].st \in {"READY", "WAITDWA"}
  IN IF rdy /\ "F13b" \notin Pinned THEN [S1 EXCEPT !.appReady[a] = TRUE] ELSE S1

\* ------------------------------------------------------------------ readiness of applications
AppPeers(a) == AppCfg[a].peers
AnyPeerReady(S, a) == \E p \in AppPeers(a) : S.peer[p].conn # 0 /\ S.conn[S.peer[p].conn].st \in READYSTATES

\* Node._flag_connection_as_ready
FlagReady(S, c) ==
  LET S1 == [S EXCEPT !.conn[c].st = "READY"]
  IN [S1 EXCEPT !.appReady = [a \in Apps |-> IF a \in Reg(S1) /\ \E p \in AppPeers(a) : S1.peer[p].conn = c THEN TRUE ELSE S1.appReady[a]]]

\* Node.remove_peer_connection
RemovePeerConnection(S, c, reason) ==
  LET p  == PeerOf(S, c)
      S0 == [S EXCEPT !.connections = Without(@, c), !.peerSockets = Without(@, c)]
      S1 == IF "F19cd" \in Pinned THEN S0 ELSE [S0 EXCEPT !.halfReady = @ \ {c}, !.socketPeers = @ \ {c}]
      S2 == IF p = "" THEN S1
            ELSE IF "F13" \in Pinned
            THEN [S1 EXCEPT !.peer[p].conn = 0, !.peer[p].lastDisc = S.now,
                            !.peer[p].reason = IF @ = 0 THEN reason ELSE @]
            ELSE IF S1.peer[p].conn # c THEN S1                               \* not the peer's registered connection
            ELSE LET others == SelectSeq(S1.connections, LAMBDA x : PeerOf(S1, x) = p)
                 IN IF others # <<>> THEN [S1 EXCEPT !.peer[p].conn = others[1]]   \* fall back on another live connection
                    ELSE [S1 EXCEPT !.peer[p].conn = 0, !.peer[p].lastDisc = S.now,
                                    !.peer[p].reason = IF @ = 0 THEN reason ELSE @]
      i  == PwIdx(S2, PwKey(S2, c))
      S3 == IF i = 0 THEN S2 ELSE [S2 EXCEPT !.peerWait = SelectSeq(@, LAMBDA r : r.h # PwKey(S2, c))]
  IN [S3 EXCEPT !.appReady = [a \in Apps |-> IF a \notin Reg(S3) \/ AnyPeerReady(S3, a) THEN S3.appReady[a] ELSE FALSE]]

\* Node.close_connection_socket
\* (lostOut counts messages the node had accepted for a connection and dropped by closing it cleanly - R_CLEAN - with the
\*  message still queued or buffered: a history variable for the interleaving-quantified invariant NoOutputLost)
CloseConnectionSocket(S, c, reason) ==
  LET S0 == IF reason = R_CLEAN /\ S.conn[c].st = "CLOSING" /\ InSeq(c, S.peerSockets) /\ S.conn[c].added
            THEN [S EXCEPT !.lostOut = @ + Len(S.conn[c].writeQ) + Len(S.conn[c].wbuf)] ELSE S
      S1 == IF InSeq(c, S0.peerSockets) /\ S0.conn[c].added
            THEN ConnClose(Emit([S0 EXCEPT !.conn[c].sock = "closed"], [ev |-> "sock_close", c |-> c]), c, FALSE)
            ELSE S0
  IN RemovePeerConnection(S1, c, reason)

\* Node._add_peer_connection  (-> state; the connection is "added" or its socket is closed)
AddPeerConnection(S, c) ==
  LET k == S.conn[c] IN
  LET Refuse == LET S1 == Emit([S EXCEPT !.conn[c].sock = "closed"], [ev |-> "sock_close", c |-> c])
                IN IF "F18a" \in Pinned THEN S1 ELSE ConnClose(S1, c, FALSE)      \* stop the worker threads it has started
  IN
  IF S.life = "stopping" THEN Refuse
  ELSE IF k.nodeName # "" /\ k.nodeName \in Peers /\ S.peer[k.nodeName].conn # 0 THEN Refuse
  ELSE LET S1 == [S EXCEPT !.conn[c].added = TRUE, !.connections = Append(@, c),
                           !.peerSockets = Append(@, c), !.socketPeers = @ \cup {c}]
           p  == PeerOf(S1, c)
       IN IF p # "" /\ S1.peer[p].conn = 0
          THEN [S1 EXCEPT !.peer[p].conn = c, !.peer[p].reason = 0, !.peer[p].lastConnect = S.now]
          ELSE [S1 EXCEPT !.halfReady = @ \cup {c}]

\* Node._assign_peer_connection
AssignPeerConnection(S, c) ==
  LET h == S.conn[c].hostId IN
  IF h = "" \/ h \notin Peers THEN S
  ELSE LET S1 == [S EXCEPT !.peer[h].reason = 0, !.peer[h].conn = IF @ = 0 THEN c ELSE @]
       IN IF c \in S1.halfReady
          THEN [S1 EXCEPT !.halfReady = @ \ {c}, !.peer[h].lastConnect = S.now]
          ELSE S1

\* ------------------------------------------------------------------ base protocol handlers
NodeAuth(S) == {AppCfg[a].id : a \in {x \in Reg(S) : AppCfg[x].auth}}
NodeAcct(S) == {AppCfg[a].id : a \in {x \in Reg(S) : AppCfg[x].acct}}

\* m.auth / m.acct: sets of application ids advertised in a CER/CEA; relay = 0xffffffff present
ReceiveCer(S, c, m) ==
  LET ans == [Answer(m, 0) EXCEPT !.app = 0]
      h   == IF "ohc" \in DOMAIN m THEN m.ohc ELSE m.oh        \* cer_origin_host = message.origin_host.decode().lower()
  IN
  IF h \notin Peers
  THEN SendMessage([S EXCEPT !.conn[c].st = "CLOSING"], c, [ans EXCEPT !.rc = 3010])
  ELSE LET S1 == IF S.conn[c].nodeName = "" THEN [S EXCEPT !.conn[c].nodeName = h] ELSE S
           \* election: connections whose origin_host attribute equals the remote host (never, see DESIGN)
           common == (NodeAuth(S) \cap m.auth) \cup (NodeAcct(S) \cap m.acct)
       IN IF common = {} /\ ~m.relay
          THEN SendMessage(S1, c, [ans EXCEPT !.rc = 5010])
          ELSE LET S2 == [S1 EXCEPT !.conn[c].originHost = NodeCfg.host, !.conn[c].hostId = h]
                   S3 == FlagReady(AssignPeerConnection(S2, c), c)
               IN SendMessage(S3, c, [ans EXCEPT !.rc = 2001])

ReceiveCea(S, c, m) ==
  IF m.rc # 2001 THEN CloseConnectionSocket(S, c, R_CERREJ)
  ELSE LET S1 == [S EXCEPT !.conn[c].hostId = m.oh]
       IN FlagReady(AssignPeerConnection(S1, c), c)

ReceiveDwr(S, c, m) == SendMessage(S, c, Answer(m, 2001))
ReceiveDwa(S, c, m) == [S EXCEPT !.conn[c].st = IF @ = "WAITDWA" THEN "READY" ELSE @, !.conn[c].lastDwr = -1]
ReceiveDpr(S, c, m) ==
  LET S1 == [S EXCEPT !.conn[c].st = "DISCONNECTING"]
      p  == PeerOf(S1, c)
      S2 == IF p = "" THEN S1 ELSE [S1 EXCEPT !.peer[p].reason = R_DPR]
  IN SendMessage(S2, c, Answer(m, 2001))
ReceiveDpa(S, c, m) == [S EXCEPT !.conn[c].st = "CLOSING", !.pipe = Append(@, c)]

\* ------------------------------------------------------------------ application routing
\* _peer_routes[realm]: apps (in registration order) with their peer lists; realm served iff it has a route
RealmsOf(a) == {PeerCfg[p].realm : p \in AppCfg[a].peers} \cup (IF AppCfg[a].peers = {} THEN {} ELSE AppCfg[a].realms)
ServedRealms(S) == {NodeCfg.realm} \cup UNION {RealmsOf(a) : a \in Reg(S)} \cup {PeerCfg[p].realm : p \in {q \in Peers : PeerCfg[q].default}}
\* peers of app a registered under realm r
RoutePeers(a, r) == {p \in AppCfg[a].peers : PeerCfg[p].realm = r \/ r \in AppCfg[a].realms}
AppsInRealm(S, r) == SelectSeq(RegOrder(S), LAMBDA a : RoutePeers(a, r) # {})

PickApp(S, c, m) ==      \* first app of the realm with the id whose peer list has this connection's peer (any if unknown)
  LET p == PeerOf(S, c)
      cands == SelectSeq(AppsInRealm(S, m.realm), LAMBDA a : AppCfg[a].id = m.app /\ (p = "" \/ p \in RoutePeers(a, m.realm)))
  IN IF cands = <<>> THEN "" ELSE cands[1]

PwAdd(S, h, id) ==
  LET i == PwIdx(S, h) IN
  IF i = 0 THEN [S EXCEPT !.peerWait = Append(@, [h |-> h, ids |-> {id}])]
  ELSE [S EXCEPT !.peerWait[i].ids = @ \cup {id}]

\* handler outcome of a basic application running in the reader thread:
\*   "hold"   : nothing now (the environment may submit an answer later)
\*   "answer" : generate_answer + send_answer at once
\*   "raise"  : raises
RouteAnswerTarget(S, m) ==      \* Node.route_answer: [ok, c, S]
  LET hits == SelectSeq(S.peerWait, LAMBDA r : PwId(m) \in r.ids) IN
  IF hits = <<>> THEN [ok |-> FALSE, c |-> 0, S |-> S]
  ELSE LET h  == hits[1].h
           i  == PwIdx(S, h)
           S1 == [S EXCEPT !.peerWait[i].ids = @ \ {PwId(m)}]
           cs == IF "F09" \in Pinned THEN SelectSeq(S1.connections, LAMBDA x : S1.conn[x].hostId = h)
                 ELSE SelectSeq(S1.connections, LAMBDA x : x = h)
       IN IF cs = <<>> THEN [ok |-> FALSE, c |-> 0, S |-> S1]
          ELSE IF S1.conn[cs[1]].st \notin READYSTATES THEN [ok |-> FALSE, c |-> 0, S |-> S1]
          ELSE [ok |-> TRUE, c |-> cs[1], S |-> S1]

SubmitAnswer(S, a, m) ==        \* Application.send_answer(m) -> state (+ observation of the outcome)
  LET r == RouteAnswerTarget(S, m) IN
  IF r.ok THEN Emit(SendMessage(r.S, r.c, m), [ev |-> "submit", a |-> a, m |-> m, r |-> "ok"])
  ELSE Emit(r.S, [ev |-> "submit", a |-> a, m |-> m, r |-> "NotRoutable"])

ReceiveAppRequest(S, c, m) ==   \* -> [S, raised]
  IF m.realm = "" THEN (IF m.typed THEN [S |-> S, raised |-> TRUE]       \* None.decode() raises
                        ELSE [S |-> SendMessage(S, c, Answer(m, 3007)), raised |-> FALSE])
  ELSE IF m.realm \notin ServedRealms(S) THEN [S |-> SendMessage(S, c, Answer(m, 3003)), raised |-> FALSE]
  ELSE LET a == PickApp(S, c, m) IN
       IF a = "" THEN [S |-> SendMessage(S, c, Answer(m, 3007)), raised |-> FALSE]
       ELSE LET S1 == Emit(PwAdd(S, PwKey(S, c), PwId(m)), [ev |-> "app_req", a |-> a, c |-> c, m |-> m])
            IN IF AppCfg[a].kind = "threading"       \* receive_request: queued for the application's own threads
               THEN [S |-> [PwAdd(S, PwKey(S, c), PwId(m)) EXCEPT !.tapp[a].recvQ = Append(@, [c |-> c, m |-> m])], raised |-> FALSE]
               ELSE
               CASE AppCfg[a].handler = "hold"   -> [S |-> [S1 EXCEPT !.held = Append(@, [a |-> a, c |-> c, m |-> m, answered |-> FALSE])], raised |-> FALSE]
                 [] AppCfg[a].handler = "answer" -> [S |-> SubmitAnswer(S1, a, [Answer(m, 2001) EXCEPT !.app = m.app]), raised |-> FALSE]
                 [] AppCfg[a].handler = "alt"    ->       \* no answer to the 1st, 3rd, ... request, an answer at once to the others
                      LET S2 == [S1 EXCEPT !.nreq[a] = @ + 1] IN
                      IF S2.nreq[a] % 2 = 1 THEN [S |-> S2, raised |-> FALSE]
                      ELSE [S |-> SubmitAnswer(S2, a, [Answer(m, 2001) EXCEPT !.app = m.app]), raised |-> FALSE]
                 \* (the request stays on record as answered by the node, so that the environment can still submit an answer for it)
                 [] AppCfg[a].handler = "raise"  -> [S |-> [S1 EXCEPT !.held = Append(@, [a |-> a, c |-> c, m |-> m, answered |-> TRUE])], raised |-> TRUE]

ReceiveAppAnswer(S, c, m) ==
  IF ~\E r \in S.appWait : r.hbh = m.hbh /\ r.e2e = m.e2e THEN S
  ELSE LET r == CHOOSE r \in S.appWait : r.hbh = m.hbh /\ r.e2e = m.e2e
           \* (the _answer_waiting entry stays until the sender thread has run: a second answer overwrites the first)
           ws == {j \in 1..Len(S.snd) : S.snd[j].st \in {"wait", "woken"} /\ S.snd[j].a = r.app /\ S.snd[j].hbh = m.hbh}
       IN IF ws # {}
          THEN LET j == CHOOSE x \in ws : \A y \in ws : x <= y IN [S EXCEPT !.snd[j].st = "woken", !.snd[j].ans = m]
          ELSE Emit(S, [ev |-> "app_ans", a |-> r.app, m |-> m])

\* ------------------------------------------------------------------ Application.send_request / Node.route_request
\* _peer_routes[realm][app] in registration order; "_default" peers of a realm in add_peer order
RouteSeq(a, r) == SelectSeq(PeerOrder, LAMBDA p : p \in RoutePeers(a, r))
DefaultSeq(r) == SelectSeq(PeerOrder, LAMBDA p : PeerCfg[p].default /\ PeerCfg[p].realm = r)
HasRoutes(S, r) == r = NodeCfg.realm \/ (\E a \in Reg(S) : RoutePeers(a, r) # {}) \/ DefaultSeq(r) # <<>>
PeerList(S, a, r) == IF ~HasRoutes(S, r) THEN <<>> ELSE IF a \in Reg(S) /\ RouteSeq(a, r) # <<>> THEN RouteSeq(a, r) ELSE DefaultSeq(r)
UsablePeers(S, a, r) == SelectSeq(PeerList(S, a, r), LAMBDA p : S.peer[p].conn # 0 /\ S.conn[S.peer[p].conn].st \in READYSTATES)

\* sender k of application a sends a request to realm r, waits `timeout`; `pick` is what the selection callback returns
SendRequest(S, k, a, r, timeout, pick) ==
  LET us == UsablePeers(S, a, r) IN
  IF us = <<>> THEN Emit([S EXCEPT !.e2e = @ + 1],             \* the end-to-end id is drawn before routing
                         [ev |-> "req_result", k |-> k, r |-> "NotRoutable", hbh |-> 0, e2e |-> 0])
  ELSE LET S0 == IF Len(us) > 1 THEN Emit(S, [ev |-> "select", a |-> a, offered |-> us]) ELSE S
           \* "default": select_least_used_peer = min(peers, key = counters.requests), the first of the least in list order
           least == CHOOSE i \in 1..Len(us) : (\A j \in 1..Len(us) : S.peer[us[i]].cnt[7] <= S.peer[us[j]].cnt[7]) /\
                                              (\A j2 \in 1..(i - 1) : S.peer[us[j2]].cnt[7] > S.peer[us[i]].cnt[7])
           p  == IF Len(us) > 1 THEN (IF pick = "last" THEN us[Len(us)] ELSE IF pick = "default" THEN us[least] ELSE us[1]) ELSE us[1]
           c  == S.peer[p].conn
           e2e == S.e2e + 1
           hbh == NextHbh(S, c)
           m  == [Request("APP", 272, hbh, e2e) EXCEPT !.app = AppCfg[a].id, !.realm = r]
           S1 == [S0 EXCEPT !.e2e = e2e, !.conn[c].hbh = hbh, !.appWait = @ \cup {[hbh |-> hbh, e2e |-> e2e, app |-> a]},
                            !.snd = Append(@, [k |-> k, a |-> a, hbh |-> hbh, e2e |-> e2e, c |-> c, dl |-> S.now + timeout, st |-> "wait", ans |-> m])]
       IN SendMessage(S1, c, m)

\* the blocked sender returns: with the answer, or with a timeout
SndReady(S) == {j \in 1..Len(S.snd) : S.snd[j].st = "woken" \/ (S.snd[j].st = "wait" /\ S.now >= S.snd[j].dl)}
SndStep(S, j) ==
  LET x == S.snd[j] IN
  IF x.st = "woken"
  THEN Emit([S EXCEPT !.snd[j].st = "done"], [ev |-> "req_result", k |-> x.k, r |-> "answer", hbh |-> x.ans.hbh, e2e |-> x.ans.e2e])
  ELSE Emit([S EXCEPT !.snd[j].st = "done"], [ev |-> "req_result", k |-> x.k, r |-> "Timeout", hbh |-> x.hbh, e2e |-> x.e2e])

\* ------------------------------------------------------------------ Node._receive_message
OwSet(S, m) == [S EXCEPT !.originWait = {r \in @ : ~(r.hbh = m.hbh /\ r.e2e = m.e2e)} \cup {[hbh |-> m.hbh, e2e |-> m.e2e, oh |-> m.oh]}]

IsDup(S, m) == LET i == SaIdx(S, m.oh) IN
               HasOriginAttr(m) /\ m.req /\ m.T /\ i # 0 /\ InSeq(m.e2e, S.sentAns[i].ids)

\* the message raises inside the handler (-> except branch: 5012 to whatever raised)
CeaMalformed(m) == m.cmd = "CE" /\ ~m.req /\ m.rc = 2001 /\ m.oh = ""
CerMalformed(m) == m.cmd = "CE" /\ m.req /\ m.oh = ""       \* unreachable with validation on

\* Node._update_peer_counters: the message kinds received from a peer, counted on the Peer the connection belongs to
\* *when the message is dispatched* (a first CER on an inbound connection finds no peer yet and is not counted; messages
\* rejected by validation or as duplicates are not counted).  Peer.counters.requests is what the default selection
\* callback select_least_used_peer compares.
CntIdx(m) == CASE m.cmd = "CE" -> IF m.req THEN 1 ELSE 2
               [] m.cmd = "DW" -> IF m.req THEN 3 ELSE 4
               [] m.cmd = "DP" -> IF m.req THEN 5 ELSE 6
               [] OTHER        -> 0
Count(S, c, m) ==
  LET p == PeerOf(S, c)
      i == CntIdx(m)
      t == IF m.req THEN 7 ELSE 8
  IN IF p = "" THEN S
     ELSE [S EXCEPT !.peer[p].cnt = [j \in 1..8 |-> IF j = i \/ j = t THEN @[j] + 1 ELSE @[j]]]

ReceiveMessage(S, c, m) ==
  LET S0 == Emit(S, [ev |-> "dispatch", c |-> c, m |-> m])
      Sa == IF HasOriginAttr(m) /\ (m.req \/ "F19b" \in Pinned) THEN OwSet(S0, m) ELSE S0
      err(St, rc) == SendMessage(St, c, Answer(m, rc))
      S1 == Count(Sa, c, m)           \* only used behind the validation and duplicate tests
  IN IF m.req /\ NodeCfg.validate /\ MissingAvps(m) THEN err(Sa, 5005)
     ELSE IF IsDup(Sa, m) THEN err(Sa, 5012)
     ELSE CASE m.cmd = "CE" /\ m.req  -> IF CerMalformed(m) THEN err(S1, 5012) ELSE ReceiveCer(S1, c, m)
            [] m.cmd = "CE" /\ ~m.req -> IF CeaMalformed(m) THEN (IF "F07" \in Pinned THEN err(S1, 5012) ELSE S1)
                                         ELSE ReceiveCea(S1, c, m)
            [] m.cmd = "DW" /\ m.req  -> ReceiveDwr(S1, c, m)
            [] m.cmd = "DW" /\ ~m.req -> ReceiveDwa(S1, c, m)
            [] m.cmd = "DP" /\ m.req  -> ReceiveDpr(S1, c, m)
            [] m.cmd = "DP" /\ ~m.req -> ReceiveDpa(S1, c, m)
            [] m.cmd = "APP" /\ m.req -> LET r == ReceiveAppRequest(S1, c, m) IN IF r.raised THEN err(r.S, 5012) ELSE r.S
            [] m.cmd = "APP" /\ ~m.req -> ReceiveAppAnswer(S1, c, m)

\* PeerConnection.__dispatch_message: the capabilities-exchange gate
Gate(S, c, m) ==
  LET k == S.conn[c] IN
  IF k.st = "CONNECTED" /\ (m.cmd # "CE" \/ (k.dir = "in" /\ ~m.req) \/ (k.dir = "out" /\ m.req))
  THEN S
  ELSE IF k.st \in {"CLOSING", "CLOSED"} /\ "F06a" \notin Pinned THEN S      \* about to be closed: reads nothing more
  ELSE ReceiveMessage(S, c, m)

\* ------------------------------------------------------------------ thread steps
\* reader: one chunk (a network read holding whole messages); then the loop-top stop test
RECURSIVE Dispatch(_, _, _)
Dispatch(S, c, ms) == IF ms = <<>> THEN S ELSE Dispatch(Gate(S, c, Head(ms)), c, Tail(ms))

RdEnabled(S, c) == S.conn[c].used /\ ~S.conn[c].rdDone /\ (S.conn[c].rdNew \/ S.conn[c].readQ # <<>> \/ S.now >= S.conn[c].rdDl)
RdStep(S, c) ==
  LET k == S.conn[c] IN
  IF k.rdNew           \* first run of the thread: the loop-top stop test, then queue.get(True, 5)
  THEN IF k.rdStop THEN [S EXCEPT !.conn[c].rdDone = TRUE, !.conn[c].rdNew = FALSE]
       ELSE [S EXCEPT !.conn[c].rdNew = FALSE, !.conn[c].rdDl = S.now + 5]
  ELSE IF k.readQ = <<>>
  THEN IF k.rdStop THEN [S EXCEPT !.conn[c].rdDone = TRUE] ELSE [S EXCEPT !.conn[c].rdDl = S.now + 5]
  ELSE LET S1 == [S EXCEPT !.conn[c].readQ = Tail(@), !.conn[c].lastRead = S.now]
       IN IF Len(Head(k.readQ)) > 0 /\ Head(k.readQ)[1].cmd = "GARBAGE"   \* unparsable header: "only garbage", self.close(); return
          THEN [ConnClose(S1, c, TRUE) EXCEPT !.conn[c].rdDone = TRUE]
          ELSE LET S2 == Dispatch(S1, c, Head(k.readQ))     \* (a fragment of a message is an empty chunk: nothing to dispatch yet)
               IN IF S2.conn[c].rdStop THEN [S2 EXCEPT !.conn[c].rdDone = TRUE] ELSE [S2 EXCEPT !.conn[c].rdDl = S.now + 5]

WrEnabled(S, c) == S.conn[c].used /\ ~S.conn[c].wrDone /\ (S.conn[c].wrNew \/ S.conn[c].writeQ # <<>> \/ S.now >= S.conn[c].wrDl)
WrStep(S, c) ==
  LET k == S.conn[c] IN
  IF k.wrNew
  THEN IF k.wrStop THEN [S EXCEPT !.conn[c].wrDone = TRUE, !.conn[c].wrNew = FALSE]
       ELSE [S EXCEPT !.conn[c].wrNew = FALSE, !.conn[c].wrDl = S.now + 5]
  ELSE IF k.writeQ = <<>>
  THEN IF k.wrStop THEN [S EXCEPT !.conn[c].wrDone = TRUE] ELSE [S EXCEPT !.conn[c].wrDl = S.now + 5]
  ELSE LET S1 == [S EXCEPT !.conn[c].writeQ = Tail(@), !.conn[c].wbuf = Append(@, Head(k.writeQ)), !.pipe = Append(@, c)]
       IN IF S1.conn[c].wrStop THEN [S1 EXCEPT !.conn[c].wrDone = TRUE] ELSE [S1 EXCEPT !.conn[c].wrDl = S.now + 5]

\* ---- the I/O loop ------------------------------------------------------------
Readable(S, c) == S.conn[c].sock = "open" /\ (S.conn[c].netIn # <<>> \/ S.conn[c].remoteClosed \/ S.conn[c].recvErr)
Writable(S, c) == S.conn[c].sock = "open" /\ ~S.conn[c].connecting /\ ~S.conn[c].stalled

IoEnabled(S) ==
  /\ ~S.io.done
  /\ \/ S.pipe # <<>> \/ S.backlog # <<>>
     \/ \E i \in 1..Len(S.io.rlist) : Readable(S, S.io.rlist[i])
     \/ \E i \in 1..Len(S.io.wlist) : Writable(S, S.io.wlist[i])
     \/ S.now >= S.io.deadline

\* nothing left to transmit: the write buffer is empty and no message waits in the write queue
\* (pinned F18c: only the buffer was looked at, a queued message was lost with the socket)
Drained(S, c) == S.conn[c].wbuf = <<>> /\ ("F18c" \in Pinned \/ S.conn[c].writeQ = <<>>)

\* interrupt pipe: one connection id per iteration
IoPipe(S) ==
  IF S.pipe = <<>> THEN S
  ELSE LET c  == Head(S.pipe)
           S1 == [S EXCEPT !.pipe = Tail(@)]
       IN IF ~InSeq(c, S1.connections) THEN S1
          ELSE IF S1.conn[c].st = "CLOSED" THEN CloseConnectionSocket(S1, c, R_CLEAN)
          ELSE IF Drained(S1, c) /\ S1.conn[c].st = "CLOSING" THEN CloseConnectionSocket(S1, c, R_CLEAN)
          ELSE S1

\* listening socket: one accept per iteration
IoAccept(S) ==
  IF S.backlog = <<>> THEN S
  ELSE LET c  == Head(S.backlog)
           S1 == Emit([S EXCEPT !.backlog = Tail(@), !.conn[c] = NewConn("in", "CONNECTED", "", S.now, c)],
                      [ev |-> "accept", c |-> c])
       IN AddPeerConnection(S1, c)

IoRead(S, c) ==
  IF c \notin S.socketPeers THEN S
  ELSE LET k == S.conn[c] IN
       IF k.sock = "closed" \/ k.recvErr                      \* recv raises a hard error (EBADF / ECONNRESET)
       THEN ConnClose(CloseConnectionSocket([S EXCEPT !.conn[c].recvErr = FALSE], c, R_SOCKFAIL), c, FALSE)
       ELSE IF k.netIn # <<>>
       THEN [S EXCEPT !.conn[c].netIn = Tail(@), !.conn[c].readQ = Append(@, Head(k.netIn))]
       ELSE IF k.remoteClosed
       THEN ConnClose(CloseConnectionSocket(S, c, R_GONE), c, FALSE)
       ELSE S                                                  \* EAGAIN
RECURSIVE IoReads(_, _)
IoReads(S, cs) == IF cs = <<>> THEN S ELSE IoReads(IoRead(S, Head(cs)), Tail(cs))

\* transmit everything buffered (partial writes are WriteBuf.tla's subject)
RECURSIVE EmitTx(_, _, _)
EmitTx(S, c, ms) == IF ms = <<>> THEN S ELSE EmitTx(Emit(S, [ev |-> "tx", c |-> c, m |-> Head(ms)]), c, Tail(ms))

IoWrite(S, c) ==
  IF c \notin S.socketPeers THEN S
  ELSE LET k == S.conn[c]
           S1 == IF k.st # "CONNECTING" THEN S
                 ELSE IF k.soErr = 0
                 THEN LET p  == PeerOf(S, c)
                          Sa == [S EXCEPT !.conn[c].st = "CONNECTED",
                                          !.conn[c].lastRead = IF "F06c" \in Pinned THEN @ ELSE S.now]
                          Sb == IF p = "" THEN Sa ELSE [Sa EXCEPT !.peer[p].lastConnect = S.now]
                      IN SendNodeRequest(Sb, c, "CE", 257)
                 ELSE ConnClose(CloseConnectionSocket(S, c, R_FAILCONNECT), c, FALSE)
       IN IF k.st = "CONNECTING" /\ k.soErr # 0 THEN S1
          ELSE LET k1 == S1.conn[c] IN
               IF k1.wbuf = <<>>
               THEN IF k1.st = "CLOSING" /\ Drained(S1, c) THEN CloseConnectionSocket(S1, c, R_CLEAN) ELSE S1
               ELSE IF k1.sock = "closed" THEN ConnClose(S1, c, TRUE)          \* send on a closed socket: hard error -> conn.close()
               ELSE IF k1.sendErr THEN ConnClose([S1 EXCEPT !.conn[c].sendErr = FALSE], c, TRUE)   \* send() fails hard (EPIPE): conn.close()
               ELSE LET S2 == EmitTx([S1 EXCEPT !.conn[c].wbuf = <<>>], c, k1.wbuf)
                    IN IF S2.conn[c].st = "CLOSING" /\ Drained(S2, c) THEN CloseConnectionSocket(S2, c, R_CLEAN) ELSE S2
RECURSIVE IoWrites(_, _)
IoWrites(S, cs) == IF cs = <<>> THEN S ELSE IoWrites(IoWrite(S, Head(cs)), Tail(cs))

\* Node._check_timers
CheckTimers(S, c) ==
  IF S.life = "stopping" THEN S
  ELSE LET k == S.conn[c]
           p == PeerOf(S, c)
           idle == Eff(p, "idle", NodeCfg.idle)   dwa == Eff(p, "dwa", NodeCfg.dwa)
           cea  == Eff(p, "cea", NodeCfg.cea)     cer == Eff(p, "cer", NodeCfg.cer)
           since == S.now - k.lastRead
       IN IF k.st = "CONNECTED"
          THEN IF (k.dir = "out" /\ since > cea) \/ (k.dir = "in" /\ since > cer)
               THEN CloseConnectionSocket(S, c, R_FAILCE) ELSE S
          ELSE IF k.st \notin READYSTATES THEN S
          ELSE IF k.st = "WAITDWA"
               THEN IF k.lastDwr >= 0 /\ S.now - k.lastDwr > dwa THEN CloseConnectionSocket(S, c, R_DWATO) ELSE S
          ELSE IF since > idle
               THEN LET S1 == SendNodeRequest(S, c, "DW", 280)
                    IN [S1 EXCEPT !.conn[c].st = "WAITDWA", !.conn[c].lastDwr = S.now]
               ELSE S
RECURSIVE IoTimers(_, _)
IoTimers(S, cs) == IF cs = <<>> THEN S
                   ELSE IoTimers(CheckTimers(S, Head(cs)), Tail(cs))

\* Node._connect_to_peer: the environment decides the outcome of connect() when the dial happens
\* (S.dialPlan: sequence of outcomes "ok" | "inprogress" | "fail"; default "inprogress")
ConnectToPeer(S, p) ==
  IF S.peer[p].conn # 0 \/ ~PeerCfg[p].addrs THEN S
  ELSE IF S.nconn >= MaxConn THEN [S EXCEPT !.overflow = TRUE]       \* bound of the instance reached: not a behaviour of the code
  ELSE LET c   == S.nconn + 1
           res == IF S.dialPlan = <<>> THEN "inprogress" ELSE Head(S.dialPlan)
           S1  == [S EXCEPT !.nconn = c, !.dialPlan = IF @ = <<>> THEN @ ELSE Tail(@),
                            !.conn[c] = [NewConn("out", "CONNECTING", p, S.now, c) EXCEPT !.originHost = NodeCfg.host]]
           S2  == AddPeerConnection(S1, c)
           S3  == Emit(S2, [ev |-> "dial", c |-> c, p |-> p, r |-> res])
       IN IF ~S2.conn[c].added THEN S2          \* rejected (stopping): socket closed, connect() never called
          ELSE CASE res = "ok" -> SendNodeRequest([S3 EXCEPT !.conn[c].st = "CONNECTED"], c, "CE", 257)
                 [] res = "inprogress" -> [S3 EXCEPT !.conn[c].connecting = TRUE, !.pipe = Append(@, c)]
                 [] res = "fail" -> IF "F19f" \in Pinned THEN RemovePeerConnection(S3, c, R_SOCKFAIL)
                                    ELSE CloseConnectionSocket(S3, c, R_SOCKFAIL)

\* Node._reconnect_peers (peers in configuration order: PeerOrder)
ShouldReconnect(S, p) ==
  /\ PeerCfg[p].persistent /\ S.peer[p].conn = 0 /\ S.peer[p].lastDisc >= 0
  /\ S.now - S.peer[p].lastDisc >= PeerCfg[p].rwait
  /\ ~(S.peer[p].reason = R_DPR /\ ~PeerCfg[p].always)
RECURSIVE Reconnect(_, _)
Reconnect(S, ps) == IF ps = <<>> \/ S.life = "stopping" THEN S
                    ELSE Reconnect(IF ShouldReconnect(S, Head(ps)) THEN ConnectToPeer(S, Head(ps)) ELSE S, Tail(ps))

\* select() arguments computed at the top of the loop
SelectLists(S) ==
  LET live == SelectSeq(S.peerSockets, LAMBDA c : InSeq(c, S.connections))
  IN [rlist |-> SelectSeq(live, LAMBDA c : S.conn[c].st # "CLOSED"),
      wlist |-> SelectSeq(live, LAMBDA c : S.conn[c].st = "CONNECTING" \/ (S.conn[c].st # "CLOSED" /\ S.conn[c].wbuf # <<>>)),
      deadline |-> S.now + NodeCfg.wakeup, done |-> FALSE]

\* the stop branch at the top of the loop: close every connection, let the workers wind down, leave
RECURSIVE ShutdownConns(_, _)
ShutdownConns(S, cs) == IF cs = <<>> THEN S
                        ELSE ShutdownConns(ConnClose(CloseConnectionSocket(S, Head(cs), R_SHUTDOWN), Head(cs), FALSE), Tail(cs))
IoShutdown(S) == [ShutdownConns(S, S.connections) EXCEPT !.io.done = TRUE]

IoIter(S) ==
  LET rr == SelectSeq(S.io.rlist, LAMBDA c : Readable(S, c))
      ww == SelectSeq(S.io.wlist, LAMBDA c : Writable(S, c))
      S1 == IoPipe(S)
      S2 == IoAccept(S1)
      S3 == IoReads(S2, rr)
      S4 == IoWrites(S3, ww)
      S5 == IoTimers(S4, S4.connections)
      S6 == Reconnect(S5, PeerOrder)
  IN IF S6.stop.ioStop THEN IoShutdown(S6)        \* loop top: _thread.is_stopped
     ELSE [S6 EXCEPT !.io = SelectLists(S6)]

\* ------------------------------------------------------------------ ThreadingApplication (application.py)
TApps == {a \in Apps : AppCfg[a].kind = "threading"}
Unlimited(a) == AppCfg[a].max = 0
\* send_answer from an application thread: NotRoutable is caught and logged (pinned F14a / F14c: it killed the thread)
TSend(S, a, ans, who, pin) ==
  LET r  == RouteAnswerTarget(S, ans)
      S1 == IF r.ok THEN Emit(SendMessage(r.S, r.c, ans), [ev |-> "submit", a |-> a, m |-> ans, r |-> "ok"])
            ELSE Emit(r.S, [ev |-> "submit", a |-> a, m |-> ans, r |-> "NotRoutable"])
  IN IF ~r.ok /\ pin \in Pinned
     THEN Emit(IF who = "app_resp" THEN [S1 EXCEPT !.tapp[a].resp.alive = FALSE] ELSE [S1 EXCEPT !.tapp[a].recv.alive = FALSE],
               [ev |-> "thread_exit", th |-> who, exc |-> "NotRoutable"])
     ELSE S1

\* _wait_for_recv_msg: runs until it blocks (empty queue, or all slots taken: put(timeout=5))
StartWorker(S, a, x) == [S EXCEPT !.tapp[a].slots = @ + 1, !.nproc = @ + 1,
                                   !.tapp[a].procs = Append(@, [id |-> S.nproc + 1, c |-> x.c, m |-> x.m, st |-> "new", wake |-> 0]),
                                   !.tapp[a].recv.st = "top", !.tapp[a].recv.cur = <<>>]
\* (n < 0: a single loop iteration - the thread stops at its next queue.get even if an item is waiting)
RECURSIVE AppRecvRun(_, _, _)
AppRecvRun(S, a, n) ==
  LET T == S.tapp[a] IN
  IF n = 0 \/ ~T.recv.alive THEN S
  ELSE IF T.recv.st = "top"                                 \* loop top: stop test, then queue.get(timeout=3)
  THEN IF T.recv.stop THEN [S EXCEPT !.tapp[a].recv.alive = FALSE]
       ELSE IF n < 0 THEN [S EXCEPT !.tapp[a].recv.st = "get", !.tapp[a].recv.dl = S.now + 3]
       ELSE AppRecvRun([S EXCEPT !.tapp[a].recv.st = "get", !.tapp[a].recv.dl = S.now + 3], a, n - 1)
  ELSE IF T.recv.st = "slot"
  THEN IF Unlimited(a) \/ T.slots < AppCfg[a].max THEN AppRecvRun(StartWorker(S, a, T.recv.cur), a, n - 1)
       ELSE IF S.now >= T.recv.dl                           \* queue.Full: DIAMETER_TOO_BUSY
       THEN LET ans == [Answer(T.recv.cur.m, 3004) EXCEPT !.app = T.recv.cur.m.app]
                S1  == [S EXCEPT !.tapp[a].recv.st = "top", !.tapp[a].recv.cur = <<>>]
            IN AppRecvRun(TSend(S1, a, ans, "app_recv", "F14c"), a, n - 1)
       ELSE S
  ELSE IF T.recvQ = <<>>
  THEN IF S.now >= T.recv.dl THEN AppRecvRun([S EXCEPT !.tapp[a].recv.st = "top"], a, n - 1)     \* queue.Empty: continue
       ELSE S
  ELSE LET x  == Head(T.recvQ)
           S1 == [S EXCEPT !.tapp[a].recvQ = Tail(@)]
       IN IF Unlimited(a) \/ T.slots < AppCfg[a].max THEN AppRecvRun(StartWorker(S1, a, x), a, n - 1)
          ELSE [S1 EXCEPT !.tapp[a].recv.st = "slot", !.tapp[a].recv.cur = x, !.tapp[a].recv.dl = S.now + 5]
AppRecvEnabled(S, a) ==
  LET T == S.tapp[a] IN
  /\ a \in TApps /\ T.recv.alive
  /\ \/ T.recv.st = "get" /\ (T.recvQ # <<>> \/ S.now >= T.recv.dl)
     \/ T.recv.st = "top"
     \/ T.recv.st = "slot" /\ (Unlimited(a) \/ T.slots < AppCfg[a].max \/ S.now >= T.recv.dl)
AppRecvStep(S, a) == AppRecvRun(S, a, 50)
AppRecvOne(S, a) == AppRecvRun(S, a, -1)

\* _process_recv_msg in its own thread: handle_request, then the result onto the result queue
\* (a None result still travels so that the slot is given back; pinned F14b: nothing was queued)
ProcEnabled(S, a, i) == S.tapp[a].procs[i].st = "new" \/ (S.tapp[a].procs[i].st = "sleep" /\ S.now >= S.tapp[a].procs[i].wake)
ProcStep(S, a, i) ==
  LET x == S.tapp[a].procs[i]
      ans(rc) == [Answer(x.m, rc) EXCEPT !.app = x.m.app]
      Done(St, item) == [St EXCEPT !.tapp[a].procs[i].st = "done", !.tapp[a].respQ = IF item = <<>> THEN @ ELSE Append(@, item)]
      S0 == IF x.st = "new" THEN Emit([S EXCEPT !.nreq[a] = @ + 1], [ev |-> "app_req", a |-> a, c |-> x.c, m |-> x.m]) ELSE S
      h  == IF AppCfg[a].handler = "alt" THEN (IF S0.nreq[a] % 2 = 1 THEN "none" ELSE "answer") ELSE AppCfg[a].handler
  IN IF x.st = "sleep" THEN Done(S0, [none |-> FALSE, m |-> ans(2001)])
     ELSE CASE h = "answer" -> Done(S0, [none |-> FALSE, m |-> ans(2001)])
            [] h = "raise"  -> Done(S0, [none |-> FALSE, m |-> ans(5012)])
            [] h = "slow"   -> [S0 EXCEPT !.tapp[a].procs[i].st = "sleep", !.tapp[a].procs[i].wake = S.now + 3]
            [] h = "slow7"  -> [S0 EXCEPT !.tapp[a].procs[i].st = "sleep", !.tapp[a].procs[i].wake = S.now + 7]   \* longer than the 5 s slot wait
            [] OTHER        -> Done(S0, IF "F14b" \in Pinned THEN <<>> ELSE [none |-> TRUE, m |-> ans(0)])     \* handler returns None

\* _wait_for_resp_msg: gives the slot back, sends the answer; runs until its queue is empty
RECURSIVE AppRespRun(_, _, _)
AppRespRun(S, a, n) ==
  LET T == S.tapp[a] IN
  IF n = 0 \/ ~T.resp.alive THEN S
  ELSE IF T.respQ = <<>>
  THEN IF S.now >= T.resp.dl                                 \* queue.Empty: loop top (stop test), get again
       THEN IF T.resp.stop THEN [S EXCEPT !.tapp[a].resp.alive = FALSE] ELSE [S EXCEPT !.tapp[a].resp.dl = S.now + 3]
       ELSE S
  ELSE LET x  == Head(T.respQ)
           S1 == [S EXCEPT !.tapp[a].respQ = Tail(@), !.tapp[a].slots = IF @ > 0 THEN @ - 1 ELSE 0]
           S2 == IF x.none THEN S1 ELSE TSend(S1, a, x.m, "app_resp", "F14a")
       IN IF ~S2.tapp[a].resp.alive THEN S2
          ELSE IF S2.tapp[a].resp.stop THEN [S2 EXCEPT !.tapp[a].resp.alive = FALSE]       \* loop top after the item
          ELSE IF n < 0 THEN [S2 EXCEPT !.tapp[a].resp.dl = S.now + 3]
          ELSE AppRespRun([S2 EXCEPT !.tapp[a].resp.dl = S.now + 3], a, n - 1)
AppRespEnabled(S, a) == a \in TApps /\ S.tapp[a].resp.alive /\ (S.tapp[a].respQ # <<>> \/ S.now >= S.tapp[a].resp.dl)
AppRespStep(S, a) == AppRespRun(S, a, 50)
AppRespOne(S, a) == AppRespRun(S, a, -1)

\* ------------------------------------------------------------------ Node.stop (runs in the caller's thread)
\* send_dpr: DISCONNECTING first, then the request (cause REBOOTING)
SendDpr(S, c) == SendNodeRequest([S EXCEPT !.conn[c].st = "DISCONNECTING"], c, "DP", 282)
RECURSIVE StopDprs(_, _)
StopDprs(S, cs) == IF cs = <<>> THEN S
                   ELSE StopDprs(IF S.conn[Head(cs)].st \in READYSTATES THEN SendDpr(S, Head(cs)) ELSE S, Tail(cs))
\* the wait loop's test: sleep another second, or go on to stop the I/O thread and join it
StopWaitOrJoin(S) ==
  IF ~S.stop.force /\ S.connections # <<>> /\ S.now < S.stop.until
  THEN [S EXCEPT !.stop.phase = "wait", !.stop.wake = S.now + 1]
  ELSE [S EXCEPT !.stop.phase = "joinio", !.stop.ioStop = TRUE, !.stop.wake = S.now + NodeCfg.wakeup + 1]
\* app.stop() for applications k.. in registration order: a basic application returns at once, a threading application
\* asks its two consumer threads to stop and joins each for at most 2 s (they notice at their next queue timeout)
RECURSIVE StopApps(_, _)
StopApps(S, k) ==
  IF k > Len(AppOrder)
  THEN Emit([S EXCEPT !.stop.phase = "done"], [ev |-> "stop_done", r |-> "ok", listen |-> 0,
                                              nodeThreads |-> (IF S.io.done THEN 0 ELSE 1) + (IF S.stats.alive THEN 1 ELSE 0)])
  ELSE IF AppOrder[k] \notin TApps THEN StopApps(S, k + 1)
  ELSE [S EXCEPT !.tapp[AppOrder[k]].resp.stop = TRUE, !.tapp[AppOrder[k]].recv.stop = TRUE,
                 !.stop.phase = "joinresp", !.stop.k = k, !.stop.wake = S.now + 2]
\* the statistics thread: wakes every 2 s, leaves when asked to stop
StatsEnabled(S) == S.stats.alive /\ S.now >= S.stats.wake
StatsStep(S) == IF S.stats.stop THEN [S EXCEPT !.stats.alive = FALSE] ELSE [S EXCEPT !.stats.wake = S.now + 2]
StopEnabled(S) ==
  CASE S.stop.phase = "begin"     -> TRUE
    [] S.stop.phase = "wait"      -> S.now >= S.stop.wake
    [] S.stop.phase = "joinio"    -> S.io.done \/ S.now >= S.stop.wake
    [] S.stop.phase = "joinstats" -> ~S.stats.alive \/ S.now >= S.stop.wake
    [] S.stop.phase = "joinresp"  -> ~S.tapp[AppOrder[S.stop.k]].resp.alive \/ S.now >= S.stop.wake
    [] S.stop.phase = "joinrecv"  -> ~S.tapp[AppOrder[S.stop.k]].recv.alive \/ S.now >= S.stop.wake
    [] OTHER -> FALSE
StopStep(S) ==
  CASE S.stop.phase = "begin" ->
         LET S1 == [S EXCEPT !.life = "stopping", !.stop.until = S.now + S.stop.wait]
             S2 == IF S.stop.force THEN S1 ELSE StopDprs(S1, S1.connections)
         IN StopWaitOrJoin(S2)
    [] S.stop.phase = "wait" -> StopWaitOrJoin(S)
    \* _stat_collect_thread.stop(); join(2)
    [] S.stop.phase = "joinio" -> [S EXCEPT !.stop.phase = "joinstats", !.stats.stop = TRUE, !.stop.wake = S.now + 2]
    \* listening sockets closed, then the applications are stopped one after the other, then stop() returns
    [] S.stop.phase = "joinstats" -> StopApps([S EXCEPT !.listen = "closed"], 1)
    [] S.stop.phase = "joinresp"  -> [S EXCEPT !.stop.phase = "joinrecv", !.stop.wake = S.now + 2]
    [] S.stop.phase = "joinrecv"  -> StopApps(S, S.stop.k + 1)

\* ------------------------------------------------------------------ retained state (C19)
RECURSIVE SumIds(_)
SumIds(pw) == IF pw = <<>> THEN 0 ELSE Cardinality(Head(pw).ids) + SumIds(Tail(pw))
Retained(S) ==
  [connections |-> Len(S.connections), peerSockets |-> Len(S.peerSockets), socketPeers |-> Cardinality(S.socketPeers),
   halfReady |-> Cardinality(S.halfReady), peerWait |-> Len(S.peerWait) + SumIds(S.peerWait), appWait |-> Cardinality(S.appWait),
   originWait |-> Cardinality(S.originWait),
   threads |-> Cardinality({c \in ConnIds : S.conn[c].used /\ ~S.conn[c].rdDone}) + Cardinality({c \in ConnIds : S.conn[c].used /\ ~S.conn[c].wrDone}),
   openSockets |-> Cardinality({c \in ConnIds : S.conn[c].used /\ S.conn[c].sock = "open"})]
\* nothing in progress: no connection alive, no request awaiting an answer from an application, no sender waiting
Idle(S) == /\ S.connections = <<>> /\ S.backlog = <<>> /\ S.pipe = <<>>
           /\ \A j \in 1..Len(S.held) : S.held[j].answered
           /\ \A j \in 1..Len(S.snd) : S.snd[j].st = "done"
           /\ \A c \in ConnIds : S.conn[c].used => (S.conn[c].readQ = <<>> /\ S.conn[c].writeQ = <<>>)

\* ------------------------------------------------------------------ scheduling
\* priority of the deterministic runtime: readers, then writers (by connection id), then the I/O loop
RdReady(S) == {c \in ConnIds : RdEnabled(S, c)}
WrReady(S) == {c \in ConnIds : WrEnabled(S, c)}
Min(s) == CHOOSE x \in s : \A y \in s : x <= y
\* worker threads of the threading applications in creation order: (application order, index)
ProcReady(S) == UNION {{<<S.tapp[AppOrder[k]].procs[i].id, k, i>> : i \in {j \in 1..Len(S.tapp[AppOrder[k]].procs) : ProcEnabled(S, AppOrder[k], j)}}
                        : k \in {x \in 1..Len(AppOrder) : AppOrder[x] \in TApps}}
TRecvReady(S) == {k \in 1..Len(AppOrder) : AppRecvEnabled(S, AppOrder[k])}
TRespReady(S) == {k \in 1..Len(AppOrder) : AppRespEnabled(S, AppOrder[k])}
AnyEnabled(S) == RdReady(S) # {} \/ WrReady(S) # {} \/ ProcReady(S) # {} \/ TRecvReady(S) # {} \/ TRespReady(S) # {}
                 \/ IoEnabled(S) \/ StatsEnabled(S) \/ SndReady(S) # {} \/ StopEnabled(S)
StepPrio(S) == IF RdReady(S) # {} THEN RdStep(S, Min(RdReady(S)))
               ELSE IF WrReady(S) # {} THEN WrStep(S, Min(WrReady(S)))
               ELSE IF ProcReady(S) # {}
               THEN LET p == CHOOSE x \in ProcReady(S) : \A y \in ProcReady(S) : x[1] <= y[1]
                    IN ProcStep(S, AppOrder[p[2]], p[3])
               ELSE IF TRecvReady(S) # {} THEN AppRecvStep(S, AppOrder[Min(TRecvReady(S))])
               ELSE IF TRespReady(S) # {} THEN AppRespStep(S, AppOrder[Min(TRespReady(S))])
               ELSE IF IoEnabled(S) THEN IoIter(S)
               ELSE IF StatsEnabled(S) THEN StatsStep(S)
               ELSE IF SndReady(S) # {} THEN SndStep(S, Min(SndReady(S)))
               ELSE StopStep(S)
RECURSIVE QuiesceN(_, _)
QuiesceN(S, n) == IF n = 0 \/ ~AnyEnabled(S) THEN S ELSE QuiesceN(StepPrio(S), n - 1)
Quiesce(S) == QuiesceN(S, 200)

\* ------------------------------------------------------------------ environment actions (state -> state)
EnvConnect(S) ==      \* a remote party connects to the listening socket
  LET c == S.nconn + 1 IN [S EXCEPT !.nconn = c, !.backlog = Append(@, c)]
EnvFeed(S, c, chunk) == [S EXCEPT !.conn[c].netIn = Append(@, chunk)]
EnvPeerClose(S, c) == [S EXCEPT !.conn[c].remoteClosed = TRUE]
EnvPeerReset(S, c) == [S EXCEPT !.conn[c].recvErr = TRUE]
EnvStall(S, c) == [S EXCEPT !.conn[c].stalled = TRUE]          \* the peer stops reading: the socket is never writable again
EnvSendError(S, c) == [S EXCEPT !.conn[c].sendErr = TRUE]          \* the next send() on c fails with a hard error
EnvConnectResult(S, c, err) == [S EXCEPT !.conn[c].connecting = FALSE, !.conn[c].soErr = err]
EnvTick(S) == [S EXCEPT !.now = @ + 1]
EnvStop(S, force, wait) == [S EXCEPT !.stop.phase = "begin", !.stop.force = force, !.stop.wait = wait]
EnvStart(S) ==        \* Node.start(): dial persistent peers
  LET RECURSIVE Dial(_, _)
      Dial(St, ps) == IF ps = <<>> THEN St
                      ELSE Dial(IF PeerCfg[Head(ps)].persistent THEN ConnectToPeer(St, Head(ps)) ELSE St, Tail(ps))
      S1 == Dial(S, PeerOrder)
  IN [S1 EXCEPT !.io = SelectLists(S1)]
=============================================================================
