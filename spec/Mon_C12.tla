------------------------------ MODULE Mon_C12 ------------------------------
(* C12: a received DPR is answered with a 2001 DPA and the peer's disconnect reason records    *)
(* the DPR; a persistent peer whose connection is lost is dialled again once its reconnect     *)
(* wait has elapsed - unless the loss followed a DPR and it is not always-reconnect, unless    *)
(* the node is stopping, or unless it already has a connection; non-persistent peers are       *)
(* never dialled; never two self-initiated connections to the same peer.                       *)
EXTENDS MonBase

R_DPR == 32
Init == [i |-> 0, viol |-> {}, started |-> FALSE, stopping |-> FALSE,
         prev |-> [p \in MPeers |-> [conn |-> 0, reason |-> 0, ldisc |-> -1]],
         rdy  |-> [c \in CIds |-> FALSE], gone |-> [c \in CIds |-> FALSE],
         dir  |-> [c \in CIds |-> ""], peer |-> [c \in CIds |-> ""], cand |-> [c \in CIds |-> ""],
         self |-> [p \in MPeers |-> {}],       \* live connections the node initiated to p
         dprd |-> [c \in CIds |-> FALSE],      \* a DPR was received on c while in service
         lossDpr |-> [p \in MPeers |-> FALSE], \* p's last connection was lost after a DPR
         lossAt  |-> [p \in MPeers |-> -1]]    \* when p was last seen to lose its connection

IsDpr(m) == m.cmd = "DP" /\ m.req
StepN(M, st) ==
  LET M0  == [M EXCEPT !.i = @ + 1]
      now == st.snap.t
      sn  == st.snap
      feed == IsFeed(st)
      c0  == IF feed THEN st.act.c ELSE 0
      ms  == IF feed THEN st.act.ms ELSE <<>>
      out == st.out
      dials(p) == SelectSeq(out, LAMBDA e : e.ev = "dial" /\ e.p = p)
      \* (a) DPR on a connection in service
      vDpr == IF feed /\ M0.rdy[c0] /\ ~M0.gone[c0] /\ Len(ms) = 1 /\ IsDpr(ms[1]) /\ ms[1].oh # "" /\ ~IsClosed(sn, c0)
              THEN (IF ~\E j \in 1..Len(out) : out[j].ev = "tx" /\ out[j].c = c0 /\ out[j].m.cmd = "DP" /\ ~out[j].m.req /\
                                              out[j].m.rc = 2001 /\ Key(out[j].m) = Key(ms[1])
                    THEN {"dpr_not_answered_2001"} ELSE {}) \cup
                   (IF M0.peer[c0] \in MPeers /\ sn.peers[M0.peer[c0]].reason # R_DPR THEN {"dpr_reason_not_recorded"} ELSE {})
              ELSE {}
      \* (b) every dial is allowed by the policy
      \* the monitor's own record of the loss (time, after a DPR or not); a loss in this very step counts from now
      lostNow(p) == M0.prev[p].conn # 0 /\ (\E j \in 1..Len(out) : out[j].ev = "sock_close" /\ out[j].c = M0.prev[p].conn)
      lossT(p) == IF lostNow(p) THEN now ELSE M0.lossAt[p]
      \* (a DPR received in the very step in which the connection is lost - DPR and DPA in one read - counts)
      \* (... provided the connection is through its capabilities exchange by then: ready before, or the exchange SUCCEEDS earlier in the same read -
      \*  a DPR behind a rejected or rejecting CEA is ignored by the node, and the loss is the rejection's, not the DPR's)
      exchBy(j) == M0.rdy[c0]
                   \/ (M0.dir[c0] = "out" /\ \E k \in 1..(j - 1) : ms[k].cmd = "CE" /\ ~ms[k].req /\ ms[k].rc = 2001 /\ ms[k].oh # "")
                   \/ (M0.dir[c0] = "in" /\ (\E k \in 1..(j - 1) : ms[k].cmd = "CE" /\ ms[k].req) /\
                        \E k \in 1..Len(out) : out[k].ev = "tx" /\ out[k].c = c0 /\ out[k].m.cmd = "CE" /\ ~out[k].m.req /\ out[k].m.rc = 2001)
      dprNow(c) == feed /\ c = c0 /\ ~M0.gone[c0] /\ \E j \in 1..Len(ms) : IsDpr(ms[j]) /\ ms[j].oh # "" /\ exchBy(j)
      lossD(p) == IF lostNow(p) THEN (M0.dprd[M0.prev[p].conn] \/ dprNow(M0.prev[p].conn)) ELSE M0.lossDpr[p]
      okDial(p) ==
        /\ MCfg.peers[p].persistent
        /\ ~M0.stopping
        /\ (M0.prev[p].conn = 0 \/ lostNow(p))
        /\ \/ st.act.a = "start"
           \/ /\ lossT(p) >= 0 /\ now - lossT(p) >= MCfg.peers[p].rwait
              /\ ~(lossD(p) /\ ~MCfg.peers[p].always)
      \* the monitor's own account of "already has a connection": a connection through its exchange that identified itself as p
      \* (or was dialled to p), not ended by DPR / DPA / close - whatever the node's own peer record says
      hasLive(p) == \E c \in CIds : M0.rdy[c] /\ ~M0.gone[c] /\ ~IsClosed(sn, c) /\ M0.peer[c] = p /\
                                      ~\E j \in 1..Len(out) : out[j].ev = "sock_close" /\ out[j].c = c
      vDial == UNION {(IF Len(dials(p)) > 0 /\ ~MCfg.peers[p].persistent THEN {"non_persistent_peer_dialled"} ELSE {}) \cup
                      (IF Len(dials(p)) > 0 /\ MCfg.peers[p].persistent /\ ~okDial(p) THEN {"dial_against_reconnect_policy"} ELSE {}) \cup
                      (IF Len(dials(p)) > 0 /\ hasLive(p) /\ ~(feed /\ M0.peer[c0] = p) THEN {"dialled_although_peer_has_a_connection"} ELSE {}) \cup
                      (IF Len(dials(p)) > 1 THEN {"dialled_twice_in_one_check"} ELSE {})
                      : p \in MPeers}
      \* (c) a due reconnect is not skipped (one wake-up period + 1 s of slack)
      vMiss == {"reconnect_missing" : p \in {q \in MPeers :
                  M0.started /\ ~M0.stopping /\ MCfg.peers[q].persistent /\ MCfg.peers[q].addrs /\
                  M0.prev[q].conn = 0 /\ sn.peers[q].conn = 0 /\ M0.lossAt[q] >= 0 /\
                  ~(M0.lossDpr[q] /\ ~MCfg.peers[q].always) /\ Len(dials(q)) = 0 /\
                  Len(sn.conns) + Len(sn.closed) < MaxC - 2 /\
                  now >= M0.lossAt[q] + MCfg.peers[q].rwait + MCfg.node.wakeup + 1}}
      \* the DPR stays recorded as the disconnect reason until the peer connects again
      vKeep == {"dpr_reason_overwritten" : p \in {q \in MPeers : lossD(q) /\ sn.peers[q].conn = 0 /\ sn.peers[q].reason # R_DPR}}
      \* a connection that answered a DPR is not put back into service
      vBack == {"connection_ready_again_after_dpr" : c \in {x \in CIds : M0.dprd[x] /\ CstOf(sn, x) \in READY}}
      \* (d) self-initiated connections per peer
      OnOut(A, e) ==
        CASE e.ev = "accept" -> [A EXCEPT !.dir[e.c] = "in"]
          [] e.ev = "dial"   -> [A EXCEPT !.dir[e.c] = "out", !.peer[e.c] = e.p,
                                          !.self[e.p] = IF e.r = "fail" THEN @ ELSE @ \cup {e.c}]
          [] e.ev = "sock_close" -> [A EXCEPT !.self = [p \in MPeers |-> @[p] \ {e.c}], !.gone[e.c] = TRUE]
          [] OTHER -> A
      M1 == FoldLeft(OnOut, M0, out)
      vTwo == {"two_self_initiated_connections" : p \in {q \in MPeers : Cardinality(M1.self[q]) > 1}}
      \* the reconnect wait is measured from the loss: the loss time must be recorded when the connection is lost
      vStamp == {"disconnect_time_not_recorded" : p \in {q \in MPeers : lostNow(q) /\ sn.peers[q].conn = 0 /\ sn.peers[q].ldisc # now}}
      sigs == vDpr \cup vDial \cup vMiss \cup vTwo \cup vKeep \cup vBack \cup vStamp
      succIn(c) == \E j \in 1..Len(out) : out[j].ev = "tx" /\ out[j].c = c /\ out[j].m.cmd = "CE" /\ ~out[j].m.req /\ out[j].m.rc = 2001
      succOut(c) == feed /\ c = c0 /\ M1.dir[c] = "out" /\ \E j \in 1..Len(ms) : ms[j].cmd = "CE" /\ ~ms[j].req /\ ms[j].rc = 2001 /\ ms[j].oh # ""
      cerHost == IF feed /\ \E j \in 1..Len(ms) : ms[j].cmd = "CE" /\ ms[j].req
                 THEN ms[CHOOSE j \in 1..Len(ms) : ms[j].cmd = "CE" /\ ms[j].req /\ \A k \in 1..(j - 1) : ~(ms[k].cmd = "CE" /\ ms[k].req)].oh ELSE ""
      M2 == [M1 EXCEPT !.viol = @ \cup {[sig |-> s, at |-> M0.i] : s \in sigs},
                       !.started = @ \/ st.act.a = "start",
                       !.dprd = [c \in CIds |-> @[c] \/ dprNow(c)],
                       !.lossAt = [p \in MPeers |-> IF \E j \in 1..Len(out) : out[j].ev = "dial" /\ out[j].p = p /\ out[j].r = "fail" THEN now   \* a failed attempt restarts the wait
                                                    ELSE IF sn.peers[p].conn # 0 /\ ~lostNow(p) THEN -1
                                                    ELSE IF lostNow(p) \/ (M0.prev[p].conn # 0 /\ sn.peers[p].conn = 0) THEN now ELSE @[p]],
                       !.lossDpr = [p \in MPeers |-> IF sn.peers[p].conn # 0 /\ ~lostNow(p) THEN FALSE
                                                     ELSE IF lostNow(p) THEN (M0.dprd[M0.prev[p].conn] \/ dprNow(M0.prev[p].conn))
                                                     ELSE IF M0.prev[p].conn # 0 /\ sn.peers[p].conn = 0 THEN (M0.dprd[M0.prev[p].conn] \/ dprNow(M0.prev[p].conn)) ELSE @[p]],
                       !.prev = [p \in MPeers |-> [conn |-> sn.peers[p].conn, reason |-> sn.peers[p].reason, ldisc |-> sn.peers[p].ldisc]],
                       !.cand = [c \in CIds |-> IF c = c0 /\ @[c] = "" /\ cerHost # "" THEN cerHost ELSE @[c]],
                       \* (a DPR / DPA ends service only on a connection through its capabilities exchange: before that it is ignored)
                       !.gone = [c \in CIds |-> @[c] \/ IsClosed(sn, c)
                                               \/ (feed /\ c = c0 /\ \E j \in 1..Len(ms) : ms[j].cmd = "DP" /\ exchBy(j))
                                               \/ (st.act.a \in {"peer_close", "peer_reset"} /\ st.act.c = c)]]
  IN [M2 EXCEPT !.rdy = [c \in CIds |-> @[c] \/ (M1.dir[c] = "in" /\ succIn(c)) \/ succOut(c)],
                !.peer = [c \in CIds |-> IF M1.dir[c] = "in" /\ succIn(c) /\ @[c] = "" THEN M2.cand[c] ELSE @[c]]]
Step(M, s0) == StepN(M, Norm(s0))
=============================================================================
