----------------------------- MODULE Trace_C04 -----------------------------
(* Cursor traces of the real decoder (one per Unpacker the library creates: message body, every  *)
(* grouped payload) validated against Unpack: each recorded AVP is a Step with the header fields   *)
(* the decoder read, ending in the recorded outcome.                                                *)
EXTENDS Unpack, Json, IOUtils, TLCExt, TLC

Traces == JsonDeserialize(IOEnv.TRACES)    \* sequence of [mode, len, ev: sequence of [v, L, after], outcome]
NT == Len(Traces)
VARIABLES tid, l
tvars == <<vars, tid, l>>

TInit == /\ tid \in 1..NT /\ l = 1
         /\ mode = Traces[tid].mode /\ len = Traces[tid].len /\ pos = 0 /\ navp = 0 /\ out = "run"

TStep == /\ l <= Len(Traces[tid].ev)
         /\ LET e == Traces[tid].ev[l] IN
              /\ Step(e.v, e.L)
              /\ IF e.after >= 0 THEN pos' = e.after /\ out' # "error" ELSE out' = "error"
         /\ l' = l + 1 /\ UNCHANGED tid
TEnd == /\ l = Len(Traces[tid].ev) + 1
        /\ \/ out = Traces[tid].outcome
           \/ (mode = "loop" /\ out = "run" /\ pos >= len /\ Traces[tid].outcome = "ok")
        /\ l' = l + 1 /\ UNCHANGED <<vars, tid>>
TNext == TStep \/ TEnd
TSpec == TInit /\ [][TNext]_tvars

ASSUME TLCSet(1, [i \in 1..NT |-> 0])
Record == TLCSet(1, [TLCGet(1) EXCEPT ![tid] = IF @ < l THEN l ELSE @])
Accepted == \A i \in 1..NT :
              \/ TLCGet(1)[i] = Len(Traces[i].ev) + 2
              \/ PrintT(<<"REJECT", i, TLCGet(1)[i]>>)
=============================================================================
