------------------------------ MODULE Mon_C13 ------------------------------
(* C13: at every quiescent point: a peer's connection attribute references a live connection  *)
(* of that peer exactly when one exists; a closed connection is in none of the node's tables   *)
(* and its socket has been closed; once a peer's connection has been removed its disconnect    *)
(* reason and time are set until it connects again; an application is ready whenever one of    *)
(* its peers has a ready connection and not ready once none of its peers has a connection.     *)
EXTENDS MonBase

Init == [i |-> 0, viol |-> {}, reg |-> {},
         owners |-> [c \in CIds |-> {}],      \* peers this connection belongs to (dialled peer / identity of a successful exchange)
         cand   |-> [c \in CIds |-> ""],      \* Origin-Host of the first CER on an inbound connection
         dir    |-> [c \in CIds |-> ""],
         multi  |-> {},                       \* peers that have had several live connections at once
         wasIn  |-> {},                       \* connections that were in the node's connection table (or were dialled)
         had    |-> {}]                       \* peers that have had a connection

OnFeed(M, c, ms) ==
  LET cers == SelectSeq(ms, LAMBDA m : m.cmd = "CE" /\ m.req)
      ceas == SelectSeq(ms, LAMBDA m : m.cmd = "CE" /\ ~m.req /\ m.rc = 2001 /\ m.oh \in MPeers)
      M1 == IF M.dir[c] = "in" /\ M.cand[c] = "" /\ cers # <<>> THEN [M EXCEPT !.cand[c] = cers[1].oh] ELSE M
  IN IF M.dir[c] = "out" /\ ceas # <<>> THEN [M1 EXCEPT !.owners[c] = @ \cup {ceas[1].oh}] ELSE M1
OnOut(M, e) ==
  CASE e.ev = "accept" -> [M EXCEPT !.dir[e.c] = "in"]
    [] e.ev = "dial"   -> [M EXCEPT !.dir[e.c] = "out", !.owners[e.c] = {e.p}, !.wasIn = @ \cup {e.c}]
    [] e.ev = "tx" /\ e.m.cmd = "CE" /\ ~e.m.req /\ e.m.rc = 2001 /\ M.dir[e.c] = "in" /\ M.cand[e.c] \in MPeers
                       -> [M EXCEPT !.owners[e.c] = @ \cup {M.cand[e.c]}]
    [] OTHER -> M

Check(M, sn) ==
  LET live(p) == {c \in CIds : InConns(sn, c) /\ p \in M.owners[c] /\ ~IsClosed(sn, c)}
      v1 == {"peer_connection_not_live" : p \in {q \in MPeers : sn.peers[q].conn # 0 /\
                 (~InConns(sn, sn.peers[q].conn) \/ IsClosed(sn, sn.peers[q].conn))}}
      v1o == {"peer_connection_of_other_peer" : p \in {q \in MPeers : sn.peers[q].conn # 0 /\ sn.peers[q].conn \in CIds /\
                 InConns(sn, sn.peers[q].conn) /\ M.owners[sn.peers[q].conn] # {} /\ q \notin M.owners[sn.peers[q].conn]}}
      v2 == {"peer_connection_unset_while_live_connection_exists" : p \in {q \in MPeers : sn.peers[q].conn = 0 /\ live(q) # {}}}
      v3 == {"closed_connection_in_tables" : c \in {x \in CIds : IsClosed(sn, x) /\ (InConns(sn, x) \/ InSocks(sn, x))}}
      v4 == {"closed_state_connection_in_tables" : j \in {k \in 1..Len(sn.cst) : sn.cst[k].st = "CLOSED"}}
      v5 == {"removed_connection_socket_open" : c \in {x \in M.wasIn : ~InConns(sn, x) /\ ~IsClosed(sn, x)}}
      v6 == {"disconnect_reason_or_time_unset" : p \in {q \in M.had : sn.peers[q].conn = 0 /\ (sn.peers[q].reason = 0 \/ sn.peers[q].ldisc < 0)}}
      rdy(a) == \E j \in 1..Len(MCfg.apps[a].peers) : LET p == MCfg.apps[a].peers[j] IN sn.peers[p].conn # 0 /\ sn.peers[p].st \in READY
      none(a) == \A j \in 1..Len(MCfg.apps[a].peers) : sn.peers[MCfg.apps[a].peers[j]].conn = 0
      multi == M.multi \cup {p \in MPeers : Cardinality(live(p)) > 1}
      several(a) == \E j \in 1..Len(MCfg.apps[a].peers) : MCfg.apps[a].peers[j] \in multi
      v7 == {IF several(a) THEN "app_not_ready_with_ready_peer:peer_with_several_connections" ELSE "app_not_ready_with_ready_peer"
               : a \in {x \in RegApps(M.reg) : rdy(x) /\ sn.apps[x] = 0}}
      v8 == {"app_ready_without_connection" : a \in {x \in RegApps(M.reg) : none(x) /\ sn.apps[x] = 1}}
      sigs == v1 \cup v1o \cup v2 \cup v3 \cup v4 \cup v5 \cup v6 \cup v7 \cup v8
  IN [M EXCEPT !.viol = @ \cup {[sig |-> s, at |-> M.i] : s \in sigs},
               !.multi = multi,
               !.wasIn = @ \cup {c \in CIds : InConns(sn, c)},
               !.had = @ \cup {p \in MPeers : sn.peers[p].conn # 0}]

StepN(M, st) ==
  LET M0 == [M EXCEPT !.i = @ + 1]
      M1 == IF IsFeed(st) THEN OnFeed(M0, st.act.c, st.act.ms) ELSE M0
      \* (an application registered in this step is judged from this step on)
      M2 == [M1 EXCEPT !.reg = RegNext(@, st)]
  IN Check(FoldLeft(OnOut, M2, st.out), st.snap)
Step(M, s0) == StepN(M, Norm(s0))
=============================================================================
