------------------------------ MODULE Mon_C20 ------------------------------
(* C20, the part that speaks of answers generated through a node or an application: whichever code path     *)
(* builds it - the node's own 5005 / 3003 / 3007 / 5012 answers, the duplicate rejection, an application's   *)
(* generate_answer, a threading application's TOO_BUSY - an answer to a typed application request carries   *)
(* the local Origin-Host and Origin-Realm exactly once, one Result-Code, and copies the request's            *)
(* Session-Id and Proxy-Info.  The environment's requests carry a Session-Id and one Proxy-Info derived      *)
(* from their identifiers (harness/msgs.py: sid_of, ccr), so the expectation is a function of the answer's   *)
(* identifiers.  Judged on what is seen on the wire (`x`, the content digest of a transmitted message);       *)
(* model messages carry no digest and are not judged (the header mirror is Wire!ToAnswerHdr's, C20's other   *)
(* half).                                                                                                   *)
EXTENDS MonBase, TLC

Init == [i |-> 0, viol |-> {}]

HasX(m) == "x" \in DOMAIN m
SidOf(m) == "s;" \o ToString(m.hbh) \o ";" \o ToString(m.e2e)
PiOf(m)  == <<"px" \o ToString(m.hbh) \o "/st" \o ToString(m.e2e)>>

StepN(M, st) ==
  LET M0  == [M EXCEPT !.i = @ + 1]
      out == st.out
      ans == {j \in 1..Len(out) : out[j].ev = "tx" /\ ~out[j].m.req /\ out[j].m.cmd = "APP" /\ out[j].m.code = 272 /\ HasX(out[j].m)}
      sigs == UNION {LET m == out[j].m IN
                (IF m.oh # MCfg.node.host \/ m.x.noh # 1 THEN {"answer_without_local_origin_host"} ELSE {}) \cup
                (IF m.x.orlm # MCfg.node.realm THEN {"answer_without_local_origin_realm"} ELSE {}) \cup
                (IF m.x.nrc # 1 THEN {"answer_result_code_not_exactly_once"} ELSE {}) \cup
                (IF m.x.sid # SidOf(m) THEN {"answer_session_id_not_copied"} ELSE {}) \cup
                (IF m.x.pi # PiOf(m) THEN {"answer_proxy_info_not_copied"} ELSE {})
              : j \in ans}
  IN [M0 EXCEPT !.viol = @ \cup {[sig |-> s, at |-> M0.i] : s \in sigs}]
Step(M, s0) == StepN(M, Norm(s0))
=============================================================================
