------------------------------ MODULE WireEval ------------------------------
(* TLC as the evaluator of the reference codec: for every generated case the expected octets /    *)
(* verdicts are computed from Wire.tla and written out for the harness to compare with the code.  *)
EXTENDS Wire, Json, IOUtils, TLC

Cases == JsonDeserialize(IOEnv.CASES)

\* a decoded tree as the harness reports it: sequence of [key, g, kids]
Eval(c) ==
  CASE c.op = "avp"      -> [bytes |-> EncAvp(c.avp), ok |-> InDomain(c.avp.val)]
    [] c.op = "msg"      -> [bytes |-> EncMsg(c.hdr, c.avps)]
    [] c.op = "answer"   -> [hdr |-> ToAnswerHdr(c.hdr)]
    [] c.op = "payload"  -> [ok |-> PayloadOk(c.k, c.p)]
    [] c.op = "find"     -> [paths |-> [i \in 1..Len(c.paths) |-> Find(c.tree, c.paths[i], <<>>)]]

ASSUME JsonSerialize(IOEnv.OUT, [i \in 1..Len(Cases) |-> Eval(Cases[i])])

VARIABLE x
EvInit == x = 0
EvNext == UNCHANGED x
=============================================================================
