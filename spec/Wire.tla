-------------------------------- MODULE Wire --------------------------------
(***************************************************************************)
(* Reference model of the Diameter wire format (RFC 6733 sections 3, 4.1,  *)
(* 4.2, 4.3) as pure operators over sequences of octets.  It is written    *)
(* from the RFC, not from the code: the implementation's encoder and       *)
(* decoder are compared with it byte by byte (TLC evaluates these          *)
(* operators on generated cases), so an encoder and decoder that agree on  *)
(* a wrong format are still caught.                                        *)
(*                                                                         *)
(* TLC integers are 32-bit: 32-bit quantities are pairs <<hi16, lo16>>,    *)
(* 64-bit quantities 4-tuples of 16-bit limbs (most significant first).    *)
(***************************************************************************)
EXTENDS Integers, Sequences, FiniteSets

Byte == 0..255
L == 65536

U16(x) == <<(x \div 256), (x % 256)>>
RECURSIVE Limbs(_)
Limbs(l) == IF l = <<>> THEN <<>> ELSE U16(Head(l)) \o Limbs(Tail(l))      \* big-endian octets of a limb sequence
U24(n) == <<n \div 65536, ((n \div 256) % 256), (n % 256)>>
Zeros(k) == [i \in 1..k |-> 0]
Pad(n) == (4 - (n % 4)) % 4
IsZero(l) == \A i \in 1..Len(l) : l[i] = 0

\* ---- limb arithmetic (most significant limb first) -------------------------
RECURSIVE AddL(_, _, _, _)
AddL(a, b, i, carry) ==        \* a + b (same length), result has the same length (overflow dropped: mod 2^(16 n))
  IF i = 0 THEN <<>>
  ELSE LET s == a[i] + b[i] + carry IN AddL(a, b, i - 1, s \div L) \o <<(s % L)>>
Add(a, b) == AddL(a, b, Len(a), 0)
Compl(a) == [i \in 1..Len(a) |-> L - 1 - a[i]]
One(n) == [i \in 1..n |-> IF i = n THEN 1 ELSE 0]
Neg(a) == Add(Compl(a), One(Len(a)))                         \* two's complement negation
RECURSIVE LessL(_, _, _)
LessL(a, b, i) == IF i > Len(a) THEN FALSE ELSE IF a[i] < b[i] THEN TRUE ELSE IF a[i] > b[i] THEN FALSE ELSE LessL(a, b, i + 1)
Less(a, b) == LessL(a, b, 1)            \* unsigned comparison
LessEq(a, b) == a = b \/ Less(a, b)

\* ---- AVP data formats (RFC 6733 4.2, 4.3) -----------------------------------
\* signed integers: [neg, limbs of the magnitude]; in domain iff -2^(n-1) <= v <= 2^(n-1) - 1
TopBit(l) == l[1] >= 32768
IntInDomain(neg, mag) == IF neg THEN (~TopBit(mag) \/ (mag[1] = 32768 /\ IsZero(Tail(mag)))) ELSE ~TopBit(mag)
IntBytes(neg, mag) == Limbs(IF neg /\ ~IsZero(mag) THEN Neg(mag) ELSE mag)

\* IEEE 754: sign, biased exponent, fraction limbs
F32Bytes(s, e, m) == <<(s * 128) + (e \div 2), ((e % 2) * 128) + m[1]>> \o U16(m[2])                    \* m = <<7 bits, 16 bits>>
F64Bytes(s, e, m) == <<(s * 128) + (e \div 16), ((e % 16) * 16) + m[1]>> \o U16(m[2]) \o U16(m[3]) \o U16(m[4])   \* m = <<4 bits, 16, 16, 16>>

\* UTF-8 of a sequence of Unicode scalar values
Utf8One(c) ==
  IF c < 128 THEN <<c>>
  ELSE IF c < 2048 THEN <<192 + (c \div 64), 128 + (c % 64)>>
  ELSE IF c < 65536 THEN <<224 + (c \div 4096), 128 + ((c \div 64) % 64), 128 + (c % 64)>>
  ELSE <<240 + (c \div 262144), 128 + ((c \div 4096) % 64), 128 + ((c \div 64) % 64), 128 + (c % 64)>>
RECURSIVE Utf8(_)
Utf8(cps) == IF cps = <<>> THEN <<>> ELSE Utf8One(Head(cps)) \o Utf8(Tail(cps))
ScalarOk(c) == c \in 0..1114111 /\ ~(c \in 55296..57343)

\* Time: seconds since 1900-01-01 modulo 2^32 (NTP era 0 has the top bit set from 1968-01-20T03:14:08Z on, era 1 starts
\* 2036-02-07T06:28:16Z and is recognisable by a clear top bit until 2104-02-26T09:42:23Z)
K1900 == <<33706, 32384>>                       \* 2208988800 = seconds from 1900-01-01 to 1970-01-01
TimeLo == <<938, 32384>>                        \* 61505152: the domain starts at unix time -61505152
TimeHi == <<64597, 33151>>                      \* 4233462143: ... and ends at unix time 4233462143
TimeInDomain(neg, mag) == IF neg THEN LessEq(mag, TimeLo) ELSE LessEq(mag, TimeHi)
TimeBytes(neg, mag) == Limbs(IF neg THEN Add(K1900, Neg(mag)) ELSE Add(K1900, mag))

\* Address: 2-octet address family (1 IPv4, 2 IPv6, 8 E.164) followed by the address
AddrOk(fam, b) == (fam = 1 /\ Len(b) = 4) \/ (fam = 2 /\ Len(b) = 16) \/ (fam = 8 /\ \A i \in 1..Len(b) : b[i] \in 48..57)
AddrBytes(fam, b) == U16(fam) \o b

\* ---- AVP (RFC 6733 4.1) ---------------------------------------------------------
\*  code(32) | V M P r r r r r | length(24) | [vendor(32)] | data | zero padding to a multiple of 4
Flags(vnz, M, P) == (IF vnz THEN 128 ELSE 0) + (IF M THEN 64 ELSE 0) + (IF P THEN 32 ELSE 0)
AvpBytes(code, vendor, M, P, data) ==
  LET vnz == ~IsZero(vendor)
      len == 8 + (IF vnz THEN 4 ELSE 0) + Len(data)
  IN Limbs(code) \o <<Flags(vnz, M, P)>> \o U24(len) \o (IF vnz THEN Limbs(vendor) ELSE <<>>) \o data \o Zeros(Pad(Len(data)))

\* a value specification (as the harness writes it) -> data octets; Grouped is the concatenation of its members
RECURSIVE Data(_), EncAvp(_), EncAvps(_)
Data(v) ==
  CASE v.t = "bytes" -> v.b
    [] v.t = "uint"  -> Limbs(v.limbs)
    [] v.t = "int"   -> IntBytes(v.neg, v.limbs)
    [] v.t = "f32"   -> F32Bytes(v.s, v.e, v.m)
    [] v.t = "f64"   -> F64Bytes(v.s, v.e, v.m)
    [] v.t = "utf8"  -> Utf8(v.cps)
    [] v.t = "time"  -> TimeBytes(v.neg, v.limbs)
    [] v.t = "addr"  -> AddrBytes(v.fam, v.b)
    [] v.t = "group" -> EncAvps(v.avps)
EncAvp(a) == AvpBytes(a.code, a.vendor, a.M, a.P, Data(a.val))
EncAvps(as) == IF as = <<>> THEN <<>> ELSE EncAvp(Head(as)) \o EncAvps(Tail(as))

RECURSIVE InDomain(_)
InDomain(v) ==
  CASE v.t = "bytes" -> TRUE
    [] v.t = "uint"  -> TRUE
    [] v.t = "int"   -> IntInDomain(v.neg, v.limbs)
    [] v.t = "f32"   -> TRUE
    [] v.t = "f64"   -> TRUE
    [] v.t = "utf8"  -> \A i \in 1..Len(v.cps) : ScalarOk(v.cps[i])
    [] v.t = "time"  -> TimeInDomain(v.neg, v.limbs)
    [] v.t = "addr"  -> AddrOk(v.fam, v.b)
    [] v.t = "group" -> \A i \in 1..Len(v.avps) : InDomain(v.avps[i].val)

\* ---- message (RFC 6733 section 3) --------------------------------------------------
\*  version(8) length(24) | flags(8) code(24) | application id(32) | hop-by-hop(32) | end-to-end(32) | AVPs
HdrBytes(h, total) == <<h.version>> \o U24(total) \o <<h.flags>> \o <<h.code[1]>> \o U16(h.code[2]) \o
                      Limbs(h.app) \o Limbs(h.hbh) \o Limbs(h.e2e)          \* code = <<high 8 bits, low 16 bits>>
EncMsg(h, avps) == LET body == EncAvps(avps) IN HdrBytes(h, 20 + Len(body)) \o body

\* answer header built from a request (RFC 6733 6.2): R, E, T cleared, P kept, everything else copied
AnswerFlags(f) == IF ((f \div 64) % 2) = 1 THEN 64 ELSE 0
ToAnswerHdr(h) == [h EXCEPT !.flags = AnswerFlags(h.flags)]

\* ---- searching the AVP tree ------------------------------------------------------------
\* tree: sequence of [key, kids] (key = <<code limbs, vendor limbs>>, kids = sequence of trees, <<>> for leaves; grouped = has kids field "g")
\* result: index paths (sequences of positions) of the AVPs found at `path`, in wire order
RECURSIVE Find(_, _, _)
Find(tree, path, prefix) ==
  LET hits(i) == IF tree[i].key = path[1]
                 THEN IF Len(path) = 1 THEN <<Append(prefix, i)>>
                      ELSE IF tree[i].g THEN Find(tree[i].kids, Tail(path), Append(prefix, i))
                      ELSE <<>>
                 ELSE <<>>
      RECURSIVE Walk(_)
      Walk(i) == IF i > Len(tree) THEN <<>> ELSE hits(i) \o Walk(i + 1)
  IN Walk(1)
\* ------------------------------------------------------------------ well-formed payloads (decode side)
\* PayloadOk(k, p): the octets p are a payload of the data format k (RFC 6733 4.2, 4.3).  Everything else is "malformed
\* for its type": reading the value of such an AVP must raise the decode error (C04).  Grouped payloads are the cursor
\* machine's subject (Unpack.tla); OctetString and unknown formats accept every payload.
Cont(b) == b >= 128 /\ b <= 191
RECURSIVE Utf8Ok(_)
Utf8Ok(p) ==
  IF p = <<>> THEN TRUE
  ELSE LET b == p[1]
           n == Len(p)
       IN IF b < 128 THEN Utf8Ok(Tail(p))
          ELSE IF b >= 194 /\ b <= 223 THEN n >= 2 /\ Cont(p[2]) /\ Utf8Ok(SubSeq(p, 3, n))
          ELSE IF b >= 224 /\ b <= 239
               THEN n >= 3 /\ Cont(p[2]) /\ Cont(p[3]) /\ (b = 224 => p[2] >= 160) /\ (b = 237 => p[2] <= 159) /\ Utf8Ok(SubSeq(p, 4, n))
          ELSE IF b >= 240 /\ b <= 244
               THEN n >= 4 /\ Cont(p[2]) /\ Cont(p[3]) /\ Cont(p[4]) /\ (b = 240 => p[2] >= 144) /\ (b = 244 => p[2] <= 143) /\ Utf8Ok(SubSeq(p, 5, n))
          ELSE FALSE
PayloadOk(k, p) ==
  CASE k \in {"i32", "u32", "f32", "time"} -> Len(p) = 4
    [] k \in {"i64", "u64", "f64"}          -> Len(p) = 8
    [] k = "utf8"                            -> Utf8Ok(p)
    [] k = "addr"                            -> /\ Len(p) >= 2
                                                /\ LET fam == p[1] * 256 + p[2] IN
                                                   CASE fam = 1 -> Len(p) = 6        \* IPv4
                                                     [] fam = 2 -> Len(p) = 18       \* IPv6
                                                     [] fam = 8 -> Utf8Ok(SubSeq(p, 3, Len(p)))   \* E.164 digits are text
                                                     [] OTHER   -> TRUE              \* other families: opaque
    [] OTHER                                 -> TRUE
=============================================================================
