------------------------------ MODULE Mon_C10 ------------------------------
(* C10: a request submitted by an application is sent only to a peer that is configured for that  *)
(* application and destination realm (or is a default peer of the realm) and whose connection is   *)
(* ready - the one the selection callback picks among exactly those peers when several qualify;    *)
(* when none exists the not-routable error is raised and nothing is sent.  Each request leaves      *)
(* with a non-zero hop-by-hop identifier unique among the requests outstanding on its connection,   *)
(* the blocked sender receives exactly the answer bearing its identifiers or times out, and an      *)
(* answer nobody waits for goes to the unexpected-answer handler of the application that sent the   *)
(* request, never to another application.                                                            *)
EXTENDS MonRoute

Defaults(r) == {p \in MPeers : MCfg.peers[p].default /\ MCfg.peers[p].realm = r}
Strict(a, r) == IF RoutePeers(a, r) # {} THEN RoutePeers(a, r) ELSE Defaults(r)    \* the peers the node considers
Allowed(a, r) == RoutePeers(a, r) \cup Defaults(r)                                   \* the peers the statement allows

\* the public counter the library's default callback (select_least_used_peer) is documented to compare, as the node
\* showed it before the step; traces recorded before counters were observed have none
ReqCnt(pr) == IF "cnt" \in DOMAIN pr THEN pr.cnt[7] ELSE 0
Init == [i |-> 0, viol |-> {}, prev |-> [peers |-> [p \in MPeers |-> [conn |-> 0, st |-> "", rq |-> 0]]],
         sent |-> <<>>,       \* requests the node transmitted for senders: [k, a, c, hbh, e2e, t, timeout, done]
         outst |-> [c \in CIds |-> {}]]    \* hop-by-hop ids of node-originated application requests outstanding on c

StepN(M, st) ==
  LET M0 == [M EXCEPT !.i = @ + 1]
      now == st.snap.t
      out == st.out
      pv  == M0.prev.peers
      ready(p) == pv[p].conn # 0 /\ pv[p].st \in READY
      isSend == st.act.a = "send"
      a  == st.act.app
      r  == st.act.realm
      reqTx == {j \in 1..Len(out) : out[j].ev = "tx" /\ out[j].m.cmd = "APP" /\ out[j].m.req}
      res(k) == {j \in 1..Len(out) : out[j].ev = "req_result" /\ out[j].k = k}
      sel == {j \in 1..Len(out) : out[j].ev = "select"}
      peerOfConn(c) == {p \in MPeers : pv[p].conn = c}
      nr == isSend /\ \E j \in res(st.act.k) : out[j].r = "NotRoutable"
      vSend ==
        IF ~isSend THEN {}
        ELSE IF nr
        THEN (IF reqTx # {} THEN {"request_sent_although_not_routable"} ELSE {}) \cup
             (IF \E p \in Strict(a, r) : ready(p) THEN {"not_routable_although_eligible_ready_peer"} ELSE {})
        \* (a request accepted for a connection that the node closes in the same instant - a watchdog timeout falling due -
        \*  is lost with it; the sender then times out, which the statement allows)
        ELSE (IF Cardinality(reqTx) > 1 \/ (Cardinality(reqTx) = 0 /\
                   ~\E j \in 1..Len(out) : out[j].ev = "sock_close" /\ \E p \in peerOfConn(out[j].c) : p \in Allowed(a, r))
              THEN {"request_not_sent_exactly_once"} ELSE {}) \cup
             (IF ~\E p \in Allowed(a, r) : ready(p) THEN {"request_sent_without_eligible_ready_peer"} ELSE {}) \cup
             UNION {(IF ~\E p \in peerOfConn(out[j].c) : p \in Allowed(a, r) /\ ready(p) THEN {"request_sent_to_ineligible_or_unready_peer"} ELSE {}) \cup
                    (IF out[j].m.hbh = 0 THEN {"zero_hop_by_hop_id"} ELSE {}) \cup
                    (IF out[j].c \in CIds /\ out[j].m.hbh \in M0.outst[out[j].c] THEN {"hop_by_hop_id_not_unique_on_connection"} ELSE {}) \cup
                    (IF sel # {} /\ \E s \in sel : (ToSet(out[s].offered) # {p \in Strict(a, r) : ready(p)})
                       THEN {"selection_offered_wrong_peers"} ELSE {}) \cup
                    (IF sel # {} /\ \E s \in sel : LET off == out[s].offered
                                                    \* "default": the first of the offered peers with the fewest requests
                                                    lu == CHOOSE i \in 1..Len(off) : (\A q \in 1..Len(off) : pv[off[i]].rq <= pv[off[q]].rq) /\
                                                                                     (\A q2 \in 1..(i - 1) : pv[off[q2]].rq > pv[off[i]].rq)
                                                    want == IF st.act.pick = "last" THEN off[Len(off)]
                                                            ELSE IF st.act.pick = "default" THEN off[lu] ELSE off[1]
                                                IN want \notin peerOfConn(out[j].c)
                       THEN {"selected_peer_not_used"} ELSE {}) \cup
                    (IF sel = {} /\ Cardinality({p \in Strict(a, r) : ready(p)}) > 1 THEN {"selection_callback_not_consulted"} ELSE {})
                    : j \in reqTx}
      \* bookkeeping of this step's transmitted request
      newSent == IF isSend /\ ~nr /\ reqTx # {}
                 THEN LET j == CHOOSE x \in reqTx : TRUE
                      IN <<[k |-> st.act.k, a |-> a, c |-> out[j].c, hbh |-> out[j].m.hbh, e2e |-> out[j].m.e2e, t |-> now, timeout |-> st.act.timeout, done |-> FALSE]>>
                 ELSE <<>>
      sent1 == M0.sent \o newSent
      \* results returned to senders in this step
      vRes == UNION {
          LET ks == {x \in 1..Len(sent1) : sent1[x].k = out[j].k} IN
          IF out[j].r = "NotRoutable" \/ ks = {} THEN {}
          ELSE LET s == sent1[CHOOSE x \in ks : TRUE] IN
               (IF out[j].r = "answer" /\ (out[j].hbh # s.hbh \/ out[j].e2e # s.e2e) THEN {"sender_received_foreign_answer"} ELSE {}) \cup
               (IF out[j].r = "Timeout" /\ now < s.t + s.timeout THEN {"timeout_before_deadline"} ELSE {}) \cup
               (IF out[j].r \notin {"answer", "Timeout"} THEN {"send_request_failed_with_other_error"} ELSE {})
          : j \in {x \in 1..Len(out) : out[x].ev = "req_result"}}
      \* a matching answer fed while the sender still waits must be handed to the sender
      fedAns == IF IsFeed(st) THEN {x \in 1..Len(st.act.ms) : st.act.ms[x].cmd = "APP" /\ ~st.act.ms[x].req} ELSE {}
      vWake == UNION {
          LET m == st.act.ms[x]
              ws == {y \in 1..Len(sent1) : ~sent1[y].done /\ sent1[y].hbh = m.hbh /\ sent1[y].e2e = m.e2e /\ sent1[y].c = st.act.c /\ now < sent1[y].t + sent1[y].timeout}
          IN IF ws # {} /\ Cardinality(fedAns) = 1 /\ ~IsClosed(st.snap, st.act.c) /\
                ~\E j \in 1..Len(out) : out[j].ev = "req_result" /\ out[j].r = "answer" /\ out[j].hbh = m.hbh /\ out[j].e2e = m.e2e
             THEN {"waiting_sender_did_not_get_its_answer"} ELSE {}
          : x \in fedAns}
      \* unexpected answers: only to the application that sent the request
      vAns == UNION {
          LET m == out[j].m
              ss == {y \in 1..Len(sent1) : sent1[y].hbh = m.hbh /\ sent1[y].e2e = m.e2e}
          IN (IF ss = {} THEN {"answer_to_unknown_request_delivered"} ELSE {}) \cup
             (IF ss # {} /\ \A y \in ss : sent1[y].a # out[j].a THEN {"answer_delivered_to_other_application"} ELSE {})
          : j \in {x \in 1..Len(out) : out[x].ev = "app_ans"}}
      \* a late or repeated answer to a request whose sender has already returned goes to that application's handler
      vLate == UNION {
          LET m == st.act.ms[x]
              ds == {y \in 1..Len(M0.sent) : M0.sent[y].done /\ M0.sent[y].hbh = m.hbh /\ M0.sent[y].e2e = m.e2e /\ M0.sent[y].c = st.act.c}
              ws == {y \in 1..Len(sent1) : ~sent1[y].done /\ sent1[y].hbh = m.hbh}
          IN IF ds # {} /\ ws = {} /\ Cardinality(fedAns) = 1 /\ Len(st.act.ms) = 1 /\ ~IsClosed(st.snap, st.act.c) /\
                (\E p \in MPeers : M0.prev.peers[p].conn = st.act.c /\ M0.prev.peers[p].st \in READY) /\
                ~\E j \in 1..Len(out) : out[j].ev = "app_ans" /\ out[j].m.hbh = m.hbh /\ out[j].m.e2e = m.e2e /\ \E y \in ds : M0.sent[y].a = out[j].a
             THEN {"late_answer_not_passed_to_senders_handler"} ELSE {}
          : x \in fedAns}
      \* schedule scenarios: the peer answered the instant the request was on the wire (time does not advance within the step)
      vFast == IF isSend /\ (\E j \in 1..Len(out) : out[j].ev = "auto_answer") /\
                  ~\E j \in res(st.act.k) : out[j].r = "answer"
               THEN {"waiting_sender_did_not_get_its_answer:answered_at_once"} ELSE {}
      sigs == vSend \cup vRes \cup vWake \cup vAns \cup vLate \cup vFast
      doneKs == {out[j].k : j \in {x \in 1..Len(out) : out[x].ev = "req_result"}}
      sent2 == [y \in 1..Len(sent1) |-> IF sent1[y].k \in doneKs THEN [sent1[y] EXCEPT !.done = TRUE] ELSE sent1[y]]
      outst1 == [c \in CIds |-> (M0.outst[c] \cup {sent1[y].hbh : y \in {z \in 1..Len(sent1) : sent1[z].c = c /\ z > Len(M0.sent)}})
                                 \ (IF IsFeed(st) /\ st.act.c = c THEN {st.act.ms[x].hbh : x \in fedAns} ELSE {})]
  IN [M0 EXCEPT !.viol = @ \cup {[sig |-> s, at |-> M0.i] : s \in sigs}, !.sent = sent2, !.outst = outst1,
                !.prev = [peers |-> [p \in MPeers |-> [conn |-> st.snap.peers[p].conn, st |-> st.snap.peers[p].st,
                                                         rq |-> ReqCnt(st.snap.peers[p])]]]]
Step(M, s0) == StepN(M, Norm(s0))
=============================================================================
