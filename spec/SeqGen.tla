------------------------------- MODULE SeqGen -------------------------------
(***************************************************************************)
(* Identifier generators of diameter.node._helpers at source-line grain:   *)
(*   SequenceGenerator.next_sequence  (hop-by-hop, end-to-end identifiers) *)
(*   SessionGenerator.next_id         (the 64-bit counter of session ids)  *)
(* One label per source line.  Locked = TRUE describes a generator whose   *)
(* read-modify-write-read is inside `with lock:`; Locked = FALSE the same  *)
(* lines without a lock (kept as a vacuity guard: TLC must find the        *)
(* duplicate identifier there).                                            *)
(* Property C16: identifiers handed out are pairwise distinct until the    *)
(* counter wraps, never zero, and the successor of MAX is 1.               *)
(***************************************************************************)
EXTENDS Naturals, Sequences, FiniteSets, TLC

CONSTANTS Callers,   \* set of concurrent callers
          Draws,     \* identifiers drawn by each caller
          MAX,       \* MAX_SEQUENCE (0xffffffff in the code; small here)
          Locked     \* BOOLEAN

ASSUME Cardinality(Callers) * Draws <= MAX   \* "until the counter space wraps"

NoOne == "none"

(* --algorithm SeqGen {
  variables seq \in 1..MAX,          \* every start value
            start = seq,
            lock = NoOne,
            got = [c \in Callers |-> <<>>],   \* values returned to each caller
            order = <<>>;                    \* values in the order they were handed out
  process (C \in Callers)
    variable n = 0;
  {
   loop: while (n < Draws) {
     acq:  if (Locked) { await lock = NoOne; lock := self; };       \* with self._lock:
     chk:  if (seq = MAX) {                                         \* if self._sequence == self.MAX_SEQUENCE:
     wrap:    seq := 1;                                             \*     self._sequence = self.MIN_SEQUENCE
           } else {
     inc:     seq := seq + 1;                                       \*     self._sequence += 1
           };
     ret:  got[self] := Append(got[self], seq);                     \* return self._sequence   (re-read)
           order := Append(order, seq);
           n := n + 1;
     rel:  if (Locked) { lock := NoOne; };
   }
  }
} *)
\* BEGIN TRANSLATION
VARIABLES pc, seq, start, lock, got, order, n

vars == << pc, seq, start, lock, got, order, n >>

ProcSet == (Callers)

Init == (* Global variables *)
        /\ seq \in 1..MAX
        /\ start = seq
        /\ lock = NoOne
        /\ got = [c \in Callers |-> <<>>]
        /\ order = <<>>
        (* Process C *)
        /\ n = [self \in Callers |-> 0]
        /\ pc = [self \in ProcSet |-> "loop"]

loop(self) == /\ pc[self] = "loop"
              /\ IF n[self] < Draws
                    THEN /\ pc' = [pc EXCEPT ![self] = "acq"]
                    ELSE /\ pc' = [pc EXCEPT ![self] = "Done"]
              /\ UNCHANGED << seq, start, lock, got, order, n >>

acq(self) == /\ pc[self] = "acq"
             /\ IF Locked
                   THEN /\ lock = NoOne
                        /\ lock' = self
                   ELSE /\ TRUE
                        /\ lock' = lock
             /\ pc' = [pc EXCEPT ![self] = "chk"]
             /\ UNCHANGED << seq, start, got, order, n >>

chk(self) == /\ pc[self] = "chk"
             /\ IF seq = MAX
                   THEN /\ pc' = [pc EXCEPT ![self] = "wrap"]
                   ELSE /\ pc' = [pc EXCEPT ![self] = "inc"]
             /\ UNCHANGED << seq, start, lock, got, order, n >>

wrap(self) == /\ pc[self] = "wrap"
              /\ seq' = 1
              /\ pc' = [pc EXCEPT ![self] = "ret"]
              /\ UNCHANGED << start, lock, got, order, n >>

inc(self) == /\ pc[self] = "inc"
             /\ seq' = seq + 1
             /\ pc' = [pc EXCEPT ![self] = "ret"]
             /\ UNCHANGED << start, lock, got, order, n >>

ret(self) == /\ pc[self] = "ret"
             /\ got' = [got EXCEPT ![self] = Append(got[self], seq)]
             /\ order' = Append(order, seq)
             /\ n' = [n EXCEPT ![self] = n[self] + 1]
             /\ pc' = [pc EXCEPT ![self] = "rel"]
             /\ UNCHANGED << seq, start, lock >>

rel(self) == /\ pc[self] = "rel"
             /\ IF Locked
                   THEN /\ lock' = NoOne
                   ELSE /\ TRUE
                        /\ lock' = lock
             /\ pc' = [pc EXCEPT ![self] = "loop"]
             /\ UNCHANGED << seq, start, got, order, n >>

C(self) == loop(self) \/ acq(self) \/ chk(self) \/ wrap(self) \/ inc(self)
              \/ ret(self) \/ rel(self)

(* Allow infinite stuttering to prevent deadlock on termination. *)
Terminating == /\ \A self \in ProcSet: pc[self] = "Done"
               /\ UNCHANGED vars

Next == (\E self \in Callers: C(self))
           \/ Terminating

Spec == Init /\ [][Next]_vars

Termination == <>(\A self \in ProcSet: pc[self] = "Done")

\* END TRANSLATION

Succ(v) == IF v = MAX THEN 1 ELSE v + 1
RECURSIVE SuccN(_, _)
SuccN(v, k) == IF k = 0 THEN v ELSE SuccN(Succ(v), k - 1)

Handed == {<<c, i>> : c \in Callers, i \in 1..Draws}
Given == {h \in Handed : h[2] <= Len(got[h[1]])}

Distinct == \A x, y \in Given : got[x[1]][x[2]] = got[y[1]][y[2]] => x = y
NonZero  == \A x \in Given : got[x[1]][x[2]] \in 1..MAX
\* stronger than the statement, true of a locked generator: consecutive successors of the start value
Consecutive == \A k \in 1..Len(order) : order[k] = SuccN(start, k)
\* the closed form that spec/apalache/SeqGenInd.tla proves inductively for MAX = 2^32 - 1 and any number of draws: the k-th value
\* handed out is F(start, k) (checked here on the history variable, for small MAX: this ties the two specifications)
F(s, i) == ((s - 1 + i) % MAX) + 1
OrderIsF == \A k \in 1..Len(order) : order[k] = F(start, k)
\* the successor of MAX is 1, every other change is +1
StepOk == [][seq' # seq => seq' = Succ(seq)]_seq
=============================================================================
