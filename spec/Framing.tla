------------------------------ MODULE Framing ------------------------------
(***************************************************************************)
(* Stream framing of PeerConnection.work_read_queue (diameter/node/peer.py)*)
(*                                                                         *)
(* The I/O loop moves network reads ("chunks") into the read queue         *)
(* (add_in_bytes); the reader thread appends a chunk to its buffer and     *)
(* runs the framing loop.  One action per exit of the loop body:           *)
(*   RdDequeue   queue.get + "buffer shorter than a header: wait"          *)
(*   RdIter      one iteration of the inner while loop                     *)
(* A byte is <<f, o>>: offset o of frame f of the stream.  The head of the *)
(* buffer is aligned iff o = 1; a misaligned head reads an arbitrary       *)
(* length field and never decodes reliably (outcome nondeterministic).     *)
(*                                                                         *)
(* Property C05: well-formed streams are delivered exactly, in order,      *)
(* once, for every chunking; undecodable frames are skipped; no input      *)
(* makes the loop iterate without consuming (Progress) or stops service    *)
(* silently: the reader resynchronises, waits, or closes.                  *)
(***************************************************************************)
EXTENDS Naturals, Sequences, FiniteSets, SequencesExt, TLC

CONSTANTS H,          \* header size (20 in the code; small for exhaustive runs)
          MaxLen,     \* largest length value a misaligned header may show
          ZeroLenSpins, \* TRUE = pinned behaviour (declared length 0 "discards 0 bytes"); FALSE = closes
          DiscardSkipsShortCheck \* TRUE = pinned behaviour (`continue` after a discard skips the
                                 \* "fewer than H bytes left: wait" test); FALSE = falls through to it

VARIABLES frames,     \* sequence of [kind, declared, real]
          net,        \* chunks not yet read from the socket
          rq,         \* read queue (chunks)
          rbuf,       \* reader's buffer: sequence of <<f, o>>
          delivered,  \* frame ids handed to message_handler (0 = a message decoded from misframed bytes)
          st,         \* "wait" (blocked in queue.get) | "run" (inside the framing loop) | "closed"
          iter        \* consecutive loop iterations that consumed nothing

vars == <<frames, net, rq, rbuf, delivered, st, iter>>

Kinds == {"good", "undec", "len0", "lenTiny", "lenShort", "lenLong"}

FrameBytes(fr, f) == [o \in 1..fr[f].real |-> <<f, o>>]
RECURSIVE StreamOf(_, _)
StreamOf(fr, f) == IF f > Len(fr) THEN <<>> ELSE FrameBytes(fr, f) \o StreamOf(fr, f + 1)

\* split s after every position in cuts (cuts \subseteq 1..Len(s)-1)
RECURSIVE Split(_, _, _)
Split(s, cuts, from) ==
    IF from > Len(s) THEN <<>>
    ELSE LET nxt == {c \in cuts : c >= from}
             to  == IF nxt = {} THEN Len(s) ELSE CHOOSE c \in nxt : \A d \in nxt : c <= d
         IN <<SubSeq(s, from, to)>> \o Split(s, cuts, to + 1)

InitWith(fr, cuts) ==
    /\ frames = fr
    /\ net = Split(StreamOf(fr, 1), cuts, 1)
    /\ rq = <<>> /\ rbuf = <<>> /\ delivered = <<>> /\ st = "wait" /\ iter = 0

Drop(s, n) == SubSeq(s, n + 1, Len(s))
Aligned(buf) == buf[1][2] = 1
Decl(buf) == IF Aligned(buf) THEN {frames[buf[1][1]].declared} ELSE 0..MaxLen

\* what decoding the first d bytes of buf can give: <<"good", f>>, <<"junk", 0>> or <<"fail", 0>>
Outcomes(buf, d) ==
    IF d < H THEN {<<"fail", 0>>}
    ELSE IF Aligned(buf) /\ d = frames[buf[1][1]].real
         THEN (IF frames[buf[1][1]].kind = "good" THEN {<<"good", buf[1][1]>>} ELSE {<<"fail", 0>>})
         ELSE {<<"junk", 0>>, <<"fail", 0>>}

IoRecv == /\ net # <<>>
          /\ rq' = Append(rq, Head(net)) /\ net' = Tail(net)
          /\ UNCHANGED <<frames, rbuf, delivered, st, iter>>

RdDequeue == /\ st = "wait" /\ rq # <<>>
             /\ rbuf' = rbuf \o Head(rq) /\ rq' = Tail(rq)
             /\ st' = IF Len(rbuf') < H THEN "wait" ELSE "run"
             /\ iter' = 0
             /\ UNCHANGED <<frames, net, delivered>>

\* queue.get(True, 5) times out with nothing queued: `except queue.Empty: continue` - nothing changes, however long the
\* stream stays silent in the middle of a frame (a stuttering step, named so that traces can record it)
RdPollTimeout == /\ st = "wait" /\ rq = <<>>
                 /\ UNCHANGED vars

AfterConsume(nb) == IF Len(nb) = 0 \/ Len(nb) < H THEN "wait" ELSE "run"

\* header cannot even be parsed (fewer than H bytes after a discard): "only garbage", close
RdShort == /\ st = "run" /\ Len(rbuf) < H
           /\ st' = "closed"
           /\ UNCHANGED <<frames, net, rq, rbuf, delivered, iter>>

\* one iteration of the inner loop that read declared length d from the head of the buffer
RdIterD(d) ==
    /\ st = "run" /\ Len(rbuf) >= H
    /\ IF Len(rbuf) < d
       THEN st' = "wait" /\ UNCHANGED <<rbuf, delivered, iter>>             \* resume_waiting
       ELSE \E o \in Outcomes(rbuf, d) :
            IF o[1] = "fail"
            THEN IF d = 0 /\ ~ZeroLenSpins
                 THEN st' = "closed" /\ UNCHANGED <<rbuf, delivered, iter>>
                 ELSE /\ rbuf' = Drop(rbuf, d)                              \* "received garbage, discarding d bytes"; continue
                      /\ st' = IF DiscardSkipsShortCheck
                               THEN (IF Len(rbuf') = 0 THEN "wait" ELSE "run")
                               ELSE AfterConsume(rbuf')
                      /\ iter' = IF d = 0 THEN iter + 1 ELSE 0
                      /\ UNCHANGED delivered
            ELSE /\ rbuf' = Drop(rbuf, d)
                 /\ delivered' = Append(delivered, o[2])
                 /\ st' = AfterConsume(rbuf')
                 /\ iter' = 0
    /\ UNCHANGED <<frames, net, rq>>

RdIter == RdShort \/ (st = "run" /\ Len(rbuf) >= H /\ \E d \in Decl(rbuf) : RdIterD(d))

Next == IoRecv \/ RdDequeue \/ RdIter \/ RdPollTimeout

\* ---------------------------------------------------------------- properties
\* operator forms (also used by the monitor evaluated on observations of the real code)
WellLengthedOf(fr) == \A f \in 1..Len(fr) : fr[f].declared = fr[f].real
GoodIdsOf(fr) == SelectSeq([f \in 1..Len(fr) |-> f], LAMBDA f : fr[f].kind = "good")
FirstBadOf(fr) == IF WellLengthedOf(fr) THEN Len(fr) + 1
                  ELSE CHOOSE f \in 1..Len(fr) : fr[f].declared # fr[f].real /\ \A g \in 1..(f - 1) : fr[g].declared = fr[g].real
GoodBeforeOf(fr) == SelectSeq(GoodIdsOf(fr), LAMBDA f : f < FirstBadOf(fr))

WellLengthed == WellLengthedOf(frames)
GoodIds == GoodIdsOf(frames)
Quiet == net = <<>> /\ (st = "closed" \/ (st = "wait" /\ rq = <<>>))

\* P1/P2: exact, ordered, exactly-once delivery; undecodable frames skipped
PrefixOk == WellLengthed => IsPrefix(delivered, GoodIds)
FinalOk  == (WellLengthed /\ Quiet) => (delivered = GoodIds /\ rbuf = <<>> /\ st = "wait")
\* good frames ahead of the first bad length are always delivered first, in order
BeforeBadOk == Quiet => IsPrefix(GoodBeforeOf(frames), delivered)
\* P3: progress measure
Progress == iter <= 1
\* P4 is the absence of deadlock with st = "run" (RdIter is always enabled there) plus,
\* on the code, "thread alive or connection closed" (checked by the harness on every execution)
TypeOk == st \in {"wait", "run", "closed"}
Terminates == <>[](Quiet)
=============================================================================
