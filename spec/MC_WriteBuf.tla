---------------------------- MODULE MC_WriteBuf ----------------------------
(* Instances of WriteBuf for TLC (functions cannot be written in a cfg file). *)
EXTENDS WriteBuf
CONSTANTS q1, q2, q3
\* 2 queuers, 3 messages, message 2 cannot be encoded
PlanA == (q1 :> <<1, 2>>) @@ (q2 :> <<3>>)
LenA  == <<2, 0, 2>>
\* 3 queuers, 4 messages of different sizes
PlanB == (q1 :> <<1, 2>>) @@ (q2 :> <<3>>) @@ (q3 :> <<4>>)
LenB  == <<2, 1, 0, 2>>
\* 1 queuer, 4 messages (FIFO under partial writes)
PlanC == (q1 :> <<1, 2, 3, 4>>)
LenC  == <<3, 2, 0, 1>>
\* 2 queuers x 3 messages
PlanD == (q1 :> <<1, 2, 3>>) @@ (q2 :> <<4, 5, 6>>)
LenD  == <<1, 2, 0, 2, 1, 1>>
=============================================================================
