------------------------------ MODULE Mon_C09 ------------------------------
(* C09: an answer submitted by an application is transmitted only on the connection on which   *)
(* the corresponding request arrived; if that connection has closed or is no longer ready the     *)
(* submission fails with the not-routable error and nothing is transmitted to any peer; a second  *)
(* answer for the same request fails instead of being transmitted.                                *)
EXTENDS MonRoute

Init == [i |-> 0, viol |-> {}, R |-> RInit,
         deliv |-> <<>>,      \* requests handed to applications: [a, key, c, answered]
         taint |-> {},        \* identifiers of requests that arrived on two different connections (the answer message cannot tell them apart)
         prevCst |-> <<>>]    \* connection states at the previous quiescent point

StOf(cst, c) == IF \E i \in 1..Len(cst) : cst[i].c = c THEN cst[CHOOSE i \in 1..Len(cst) : cst[i].c = c].st ELSE ""

\* process the observations of one step in order
OnOut(A, e) ==
  CASE e.ev = "app_req" -> [A EXCEPT !.deliv = Append(@, [a |-> e.a, key |-> Key(e.m), c |-> e.c, answered |-> FALSE]),
                                     !.taint = IF \E y \in 1..Len(A.deliv) : A.deliv[y].key = Key(e.m) /\ A.deliv[y].c # e.c
                                               THEN @ \cup {Key(e.m)} ELSE @]
    [] e.ev = "submit" ->
         LET idx   == {j \in 1..Len(A.deliv) : A.deliv[j].a = e.a /\ A.deliv[j].key = Key(e.m) /\ (A.c0 = 0 \/ A.deliv[j].c = A.c0)}
             open  == {j \in idx : ~A.deliv[j].answered}
         IN IF idx = {} THEN A      \* an answer to something that was never delivered: outside the statement
            ELSE LET j == IF open # {} THEN CHOOSE y \in open : \A z \in open : y >= z      \* the most recent delivery not yet answered
                          ELSE CHOOSE y \in idx : \A z \in idx : y >= z
                     \* the same identifiers are awaiting an answer on another connection too: the answer message
                     \* alone cannot say which request it answers
                     amb == Key(e.m) \in A.taint
                 IN [A EXCEPT !.deliv[j].answered = TRUE,
                              !.subs = Append(@, [key |-> Key(e.m), c |-> A.deliv[j].c, r |-> e.r, again |-> open = {}, amb |-> amb]),
                              !.seen = Append(@, e)]
    \* an answer to a delivered request leaves on the requester's connection by whatever route (the node's own error answer
    \* after the handler failed, a direct send): that request is answered
    [] e.ev = "tx" /\ ~e.m.req /\ (\E j \in 1..Len(A.deliv) : A.deliv[j].key = Key(e.m) /\ A.deliv[j].c = e.c /\ ~A.deliv[j].answered)
         /\ ~(\E k \in 1..Len(A.subs) : A.subs[k].key = Key(e.m) /\ A.subs[k].r = "ok") ->
         LET j == CHOOSE y \in 1..Len(A.deliv) : A.deliv[y].key = Key(e.m) /\ A.deliv[y].c = e.c /\ ~A.deliv[y].answered
         IN [A EXCEPT !.deliv[j].answered = TRUE, !.seen = Append(@, e)]
    [] OTHER -> [A EXCEPT !.seen = Append(@, e)]

StepN(M, st) ==
  LET M0  == [M EXCEPT !.i = @ + 1]
      out == st.out
      c0  == IF st.act.a = "submit" /\ "c0" \in DOMAIN st.act THEN st.act.c0 ELSE 0
      A0  == [deliv |-> M0.deliv, subs |-> <<>>, seen |-> <<>>, c0 |-> c0, taint |-> M0.taint]
      A   == FoldLeft(OnOut, A0, out)
      txOf(key) == {j \in 1..Len(out) : out[j].ev = "tx" /\ ~out[j].m.req /\ Key(out[j].m) = key}
      \* judgement of each submission of this step
      bad(s) ==
        (IF s.r = "ok" /\ s.again THEN {IF s.amb THEN "second_answer_transmitted:identical_ids_in_flight_on_two_connections" ELSE "second_answer_transmitted"} ELSE {}) \cup
        (IF s.r = "ok" /\ ~s.again /\ \E j \in txOf(s.key) : out[j].c # s.c
            THEN {IF s.amb THEN "answer_transmitted_on_other_connection:identical_ids_in_flight_on_two_connections" ELSE "answer_transmitted_on_other_connection"} ELSE {}) \cup
        (IF s.r = "ok" /\ ~s.again /\ (~\E j \in txOf(s.key) : out[j].c = s.c)
            /\ ~IsClosed(st.snap, s.c)
            THEN {IF s.amb THEN "accepted_answer_not_transmitted:identical_ids_in_flight_on_two_connections" ELSE "accepted_answer_not_transmitted"} ELSE {}) \cup
        (IF s.r # "ok" /\ txOf(s.key) # {} /\ Cardinality({x \in 1..Len(A.subs) : A.subs[x].key = s.key}) = 1 THEN {"answer_transmitted_despite_error"} ELSE {}) \cup
        (IF s.r = "ok" /\ st.act.a = "submit" /\ (StOf(M0.prevCst, s.c) \notin READY \/ ~InService(M0.R, s.c)) THEN {"answer_accepted_for_connection_not_ready"} ELSE {}) \cup
        (IF s.r \notin {"ok", "NotRoutable"} /\ ~s.again THEN {"submission_failed_with_other_error"} ELSE {})
      \* concurrent submissions of one answer (schedule scenarios): whatever the order in which the callers return,
      \* at most one is accepted and at most one copy is transmitted, on the requester's connection
      conc == "twice" \in DOMAIN st.act
      oks == {j \in 1..Len(out) : out[j].ev = "submit" /\ out[j].r = "ok"}
      ctx == {j \in 1..Len(out) : out[j].ev = "tx" /\ ~out[j].m.req /\ Key(out[j].m) = Key(st.act.m)}
      vConc == (IF Cardinality(oks) > 1 THEN {"second_answer_transmitted"} ELSE {}) \cup
               (IF Cardinality(ctx) > 1 THEN {"answer_transmitted_twice"} ELSE {}) \cup
               (IF \E j \in ctx : out[j].c # c0 THEN {"answer_transmitted_on_other_connection"} ELSE {}) \cup
               (IF Cardinality(oks) = 0 /\ ctx # {} THEN {"answer_transmitted_despite_error"} ELSE {})
      sigs == IF conc THEN vConc ELSE UNION {bad(A.subs[x]) : x \in 1..Len(A.subs)}
  IN [M0 EXCEPT !.viol = @ \cup {[sig |-> s, at |-> M0.i] : s \in sigs}, !.deliv = A.deliv, !.taint = A.taint, !.prevCst = st.snap.cst,
                !.R = RUpdate(M0.R, st)]
Step(M, s0) == StepN(M, Norm(s0))
=============================================================================
