------------------------------ MODULE Mon_C19 ------------------------------
(* C19: per-transaction state and per-connection resources are released when the transaction      *)
(* completes / the connection closes, is refused or fails to be established; after any history in  *)
(* which every request has been answered and every connection has ended, the retained state and    *)
(* the number of live worker threads are independent of what was performed (apart from the         *)
(* documented fixed-size windows).                                                                  *)
(* snap.tb = <<connections, peer_sockets, socket_peers, half_ready, requests awaiting an            *)
(*            application's answer, requests awaiting a peer's answer, duplicate-detection records  *)
(*            of requests being processed, live connection worker threads, open connection          *)
(*            sockets>>  (-1 = not observable)                                                      *)
EXTENDS MonBase

Names == <<"connections", "peer_sockets", "socket_peers", "half_ready_connections", "peer_waiting_answer",
           "app_waiting_answer", "origin_waiting_answer", "worker_threads", "open_sockets">>

Init == [i |-> 0, viol |-> {},
         pend |-> [c \in CIds |-> <<>>],      \* requests received on c and not yet answered
         rdy  |-> [c \in CIds |-> FALSE],     \* capabilities exchange succeeded on c
         sends |-> {}, results |-> {},        \* send_request calls started / returned
         lastClose |-> 0,
         seen |-> {}, ended |-> {}]           \* connections accepted / dialled; connections that ended (closed by either side, or closing themselves)

Step(M, s0) ==
  LET st == Norm(s0)
      M0 == [M EXCEPT !.i = @ + 1]
      sn == st.snap
      now == sn.t
      out == st.out
      feed == IsFeed(st)
      \* requests received on a connection in service count as awaiting an answer until one is transmitted
      inSvc == feed /\ st.act.c \in CIds /\ (M0.rdy[st.act.c] \/ \E j \in 1..Len(st.act.ms) : st.act.ms[j].cmd = "CE")
      pend1 == IF inSvc THEN [M0.pend EXCEPT ![st.act.c] = @ \o [j \in 1..Len(SelectSeq(st.act.ms, LAMBDA x : x.req)) |-> Key(SelectSeq(st.act.ms, LAMBDA x : x.req)[j])]]
               ELSE M0.pend
      OnOut(A, e) == IF e.ev = "tx" /\ ~e.m.req /\ e.c \in CIds THEN [A EXCEPT ![e.c] = RemoveFirst(@, Key(e.m))]
                     ELSE A
      pend2 == FoldLeft(OnOut, pend1, out)
      sends == M0.sends \cup (IF st.act.a = "send" THEN {st.act.k} ELSE {})
      results == M0.results \cup {out[j].k : j \in {x \in 1..Len(out) : out[x].ev = "req_result"}}
      closeNow == \E j \in 1..Len(out) : out[j].ev = "sock_close"
      \* the environment's own account of which connections have ended: the peer closed / reset it, it delivered undecodable
      \* bytes (the connection closes itself), or the node closed its socket
      rawActs == IF s0.act.a = "multi" THEN s0.act.acts ELSE <<s0.act>>
      endedByEnv == {rawActs[j].c : j \in {k \in 1..Len(rawActs) : rawActs[k].a \in {"peer_close", "peer_reset", "garbage"}}}
      seen == M0.seen \cup {out[j].c : j \in {x \in 1..Len(out) : out[x].ev \in {"accept", "dial"}}}
      ended == M0.ended \cup endedByEnv \cup {out[j].c : j \in {x \in 1..Len(out) : out[x].ev = "sock_close"}}
      lastClose == IF closeNow \/ endedByEnv # {} THEN now ELSE M0.lastClose
      tb == sn.tb
      \* every connection has ended: the node's own table is empty, or - whatever its tables say - every connection it ever had
      \* has ended and it has had a wake-up period to notice
      idle == sn.conns = <<>> \/ (seen # {} /\ seen \subseteq ended /\ now >= lastClose + MCfg.node.wakeup + 1)
      allAnswered == \A c \in CIds : pend2[c] = <<>>
      nz(k) == tb[k] # -1 /\ tb[k] # 0
      sigs == (IF idle THEN {"retained_after_all_connections_ended:" \o Names[k] : k \in {x \in 1..5 : nz(x)}} ELSE {}) \cup
              (IF idle /\ allAnswered /\ nz(7) THEN {"retained_after_all_connections_ended:" \o Names[7]} ELSE {}) \cup
              \* per-transaction state goes when the transaction completes, not only when its connection does: once every request
              \* received on a connection in service has been answered on the wire, the table of requests awaiting an application's
              \* answer holds no entry (at most its one key per live connection)
              (IF allAnswered /\ tb[5] # -1 /\ tb[5] > Len(sn.conns) THEN {"retained_after_all_requests_answered:" \o Names[5]} ELSE {}) \cup
              (IF idle /\ sends = results /\ nz(6) THEN {"retained_after_all_requests_answered:" \o Names[6]} ELSE {}) \cup
              (IF idle /\ now >= lastClose + 6 /\ nz(8) THEN {"worker_threads_alive_after_connections_ended"} ELSE {}) \cup
              (IF tb[9] # -1 /\ tb[9] # Len(sn.conns) THEN {"open_sockets_differ_from_connections"} ELSE {})
      succ(c) == (\E j \in 1..Len(out) : out[j].ev = "tx" /\ out[j].c = c /\ out[j].m.cmd = "CE" /\ ~out[j].m.req /\ out[j].m.rc = 2001) \/
                 (feed /\ st.act.c = c /\ \E j \in 1..Len(st.act.ms) : st.act.ms[j].cmd = "CE" /\ ~st.act.ms[j].req /\ st.act.ms[j].rc = 2001)
  IN [M0 EXCEPT !.viol = @ \cup {[sig |-> s, at |-> M0.i] : s \in sigs}, !.pend = pend2, !.rdy = [c \in CIds |-> @[c] \/ succ(c)], !.sends = sends, !.results = results,
                !.lastClose = lastClose, !.seen = seen, !.ended = ended]

\* scaling: observations taken when idle after N = n1 < n2 < ... repetitions of one kind of cycle must agree
ScaleVerdict(obs) ==
  {[sig |-> "retained_state_depends_on_repetitions", at |-> i] : i \in {j \in 2..Len(obs) : obs[j].ret # obs[1].ret}} \cup
  {[sig |-> "live_threads_depend_on_repetitions", at |-> i] : i \in {j \in 2..Len(obs) : obs[j].threads # obs[1].threads}} \cup
  {[sig |-> "open_sockets_depend_on_repetitions", at |-> i] : i \in {j \in 2..Len(obs) : obs[j].open # obs[1].open}}
=============================================================================
