------------------------------ MODULE Mon_C08 ------------------------------
(* C08: on a ready connection a request whose application id, destination realm and originating  *)
(* peer match a registered application and which carries every required AVP is handed to that     *)
(* application exactly once and to no other; base-protocol messages are never handed to            *)
(* applications; otherwise the node answers itself (5005 / 3003 / 3007 / 5012) and the application  *)
(* sees nothing.  Precedence among simultaneously applicable results is not specified: any          *)
(* applicable code is accepted.  Judged for typed commands received alone in a network read on a    *)
(* connection in service (Failed-AVP contents are checked per command class by the class sweep).    *)
EXTENDS MonRoute

Init == [i |-> 0, viol |-> {}, R |-> RInit,
         seenE2e |-> {}]        \* <<origin, e2e>> of requests received before (a T-flagged retransmission may be answered 5012; whether
                                \* it must be - only if the original was answered within the window - is C17's subject, not judged here)

StepN(M, st) ==
  LET M0 == [M EXCEPT !.i = @ + 1]
      R  == M0.R
      feed == IsFeed(st)
      out == st.out
      c0 == IF feed THEN st.act.c ELSE 0
      judged == feed /\ Len(st.act.ms) = 1 /\ InService(R, c0) /\ ~IsClosed(st.snap, c0)
      m  == st.act.ms[1]
      p  == R.peer[c0]
      reqs == {j \in 1..Len(out) : out[j].ev = "app_req"}
      \* ... neither as a request, nor as an unexpected answer, nor as the answer a blocked sender receives
      vBase == {"base_protocol_message_handed_to_application" : j \in {k \in reqs : out[k].m.cmd # "APP"}} \cup
               {"base_protocol_message_handed_to_application:as_answer" : j \in {k \in 1..Len(out) :
                    (out[k].ev = "app_ans" /\ out[k].m.cmd # "APP") \/ (out[k].ev = "req_result" /\ out[k].r \in {"base:257", "base:280", "base:282"})}}
      deliv == {j \in reqs : Key(out[j].m) = Key(m)}
      answers == {j \in 1..Len(out) : out[j].ev = "tx" /\ out[j].c = c0 /\ ~out[j].m.req /\ Key(out[j].m) = Key(m)}
      app == Applicable(m, p)
      dupOk == m.T /\ <<m.oh, m.e2e>> \in M0.seenE2e
      vReq ==
        IF ~(judged /\ m.cmd = "APP" /\ m.req /\ m.typed /\ p \in MPeers) THEN {}
        ELSE IF app = {} /\ ~dupOk
        THEN (IF Cardinality(deliv) = 0 THEN {"matching_request_not_delivered"} ELSE {}) \cup
             (IF Cardinality(deliv) > 1 THEN {"request_delivered_more_than_once"} ELSE {}) \cup
             (IF \E j \in deliv : out[j].a \notin Matching(m, p) THEN {"request_delivered_to_wrong_application"} ELSE {})
        ELSE IF app = {} /\ dupOk
        THEN (IF Cardinality(deliv) > 1 THEN {"request_delivered_more_than_once"} ELSE {})
        ELSE (IF deliv # {} THEN {"unroutable_or_invalid_request_shown_to_application"} ELSE {}) \cup
             (IF Cardinality(answers) # 1 THEN {"rejected_request_not_answered_exactly_once"} ELSE {}) \cup
             (IF \E j \in answers : out[j].m.rc \notin (app \cup (IF dupOk THEN {5012} ELSE {})) THEN {"wrong_result_code_for_rejected_request"} ELSE {})
      \* an application that raises: the node answers 5012 itself
      vRaise == IF judged /\ m.cmd = "APP" /\ m.req /\ m.typed /\ p \in MPeers /\ app = {} /\ Cardinality(deliv) = 1
                   /\ (\E j \in deliv : MCfg.apps[out[j].a].handler = "raise")
                   /\ ~\E j \in answers : out[j].m.rc = 5012
                THEN {"handler_failure_not_answered_5012"} ELSE {}
      sigs == vBase \cup vReq \cup vRaise
      answered == IF feed THEN {<<st.act.ms[j].oh, st.act.ms[j].e2e>> : j \in {k \in 1..Len(st.act.ms) : st.act.ms[k].req}} ELSE {}
  IN [M0 EXCEPT !.viol = @ \cup {[sig |-> s, at |-> M0.i] : s \in sigs}, !.R = RUpdate(R, st),
                !.seenE2e = @ \cup answered]
Step(M, s0) == StepN(M, Norm(s0))
=============================================================================
