----------------------------- MODULE Trace_C15 -----------------------------
(***************************************************************************)
(* Code -> spec for C15: executions of the real writer thread, the real    *)
(* I/O loop send branch and queueing threads, recorded at source-line      *)
(* grain under enumerated schedules, validated against WriteBuf.           *)
(* Logged: enq(q, m), wrd, wst, isnd(k), irm; everything else (queue get,  *)
(* lock acquire/release, select) is inferred by TLC as silent steps.       *)
(***************************************************************************)
EXTENDS WriteBuf, Json, IOUtils, TLCExt

Params == JsonDeserialize(IOEnv.PARAMS)     \* [queuers, plan, enclen]
TQueuers == {Params.queuers[x] : x \in 1..Len(Params.queuers)}
TPlan == [q \in TQueuers |-> Params.plan[q]]
TEncLen == Params.enclen

Traces == JsonDeserialize(IOEnv.TRACES)     \* sequence of sequences of events
NT == Len(Traces)
VARIABLES tid, l
tvars == <<vars, tid, l>>
Ev == Traces[tid]

TInit == Init /\ tid \in 1..NT /\ l = 1

TEnq == /\ l <= Len(Ev) /\ Ev[l].ev = "enq"
        /\ LET q == Ev[l].q IN pc[q] = "enq" /\ Q(q) /\ Plan[q][i[q]] = Ev[l].m
        /\ l' = l + 1 /\ UNCHANGED tid
TW == /\ l <= Len(Ev) /\ Ev[l].ev \in {"wrd", "wst"}
      /\ pc["writer"] = Ev[l].ev /\ W
      /\ l' = l + 1 /\ UNCHANGED tid
TSnd == /\ l <= Len(Ev) /\ Ev[l].ev = "isnd"
        /\ pc["io"] = "isnd" /\ Io /\ k' = Ev[l].k /\ Len(snap) = Ev[l].n
        /\ l' = l + 1 /\ UNCHANGED tid
TRm == /\ l <= Len(Ev) /\ Ev[l].ev = "irm"
       /\ pc["io"] = "irm" /\ Io
       /\ l' = l + 1 /\ UNCHANGED tid
TEnd == /\ l <= Len(Ev) /\ Ev[l].ev = "end"
        /\ Drained /\ Len(sent) = Ev[l].sent
        /\ l' = l + 1 /\ UNCHANGED <<vars, tid>>
TSilent == /\ \/ (pc["writer"] \in {"wget", "wacq", "wrel"} /\ W)
              \/ (\E q \in Queuers : pc[q] = "enq" /\ i[q] > Len(Plan[q]) /\ Q(q))
              \/ (pc["io"] \in {"isel", "iacq", "irel"} /\ Io)
           /\ UNCHANGED <<tid, l>>

TNext == TEnq \/ TW \/ TSnd \/ TRm \/ TEnd \/ TSilent
TSpec == TInit /\ [][TNext]_tvars

ASSUME TLCSet(1, [x \in 1..NT |-> 0])
Record == TLCSet(1, [TLCGet(1) EXCEPT ![tid] = IF @ < l THEN l ELSE @])
Accepted == \A x \in 1..NT :
              \/ TLCGet(1)[x] = Len(Traces[x]) + 1
              \/ PrintT(<<"REJECT", x, TLCGet(1)[x]>>)
=============================================================================
