------------------------------ MODULE NodeEnv ------------------------------
(***************************************************************************)
(* The environment's side of Node.tla: the alphabet of environment actions *)
(* as records (the same records the harness writes into traces), their     *)
(* application to the state, and the projection of the public state in     *)
(* exactly the shape the harness records (world.snap).  Used by the        *)
(* conformance check (Conf_Node) and by the model-checking instances       *)
(* (MC_Node) alike.                                                        *)
(***************************************************************************)
EXTENDS Node, Json, IOUtils

ToSet(s) == {s[i] : i \in 1..Len(s)}

\* instance parameters from the environment (one configuration per TLC run): cfg lines `NodeCfg <- CNodeCfg` etc.
P == JsonDeserialize(IOEnv.PARAMS)       \* [node, peerOrder, peers, appOrder, apps, maxConn, pinned]
CNodeCfg == P.node
CPeerOrder == P.peerOrder
CPeerCfg == [p \in ToSet(P.peerOrder) |-> P.peers[p]]
CAppOrder == P.appOrder
CAppCfg == [a \in ToSet(P.appOrder) |-> [P.apps[a] EXCEPT !.peers = ToSet(@), !.realms = ToSet(@)]]
CMaxConn == P.maxConn
CPinned == ToSet(P.pinned)

\* Diameter identities are compared case-insensitively (RFC 6733 4.3.1): the instance parameters list the other spellings the
\* environment uses for the configured peers (P.canon: spelling |-> configured name).  A message keeps its Origin-Host as
\* spelled (oh: what the node files its duplicate-detection records under) and gets the configured name next to it (ohc:
\* what receive_cer looks the peer up with)
Canon(h) == IF "canon" \in DOMAIN P /\ h \in DOMAIN P.canon THEN P.canon[h] ELSE h
FromJson(m) == LET m1 == [m EXCEPT !.auth = ToSet(@), !.acct = ToSet(@)]
               IN [f \in DOMAIN m1 \cup {"ohc"} |-> IF f = "ohc" THEN Canon(m.oh) ELSE m1[f]]
RECURSIVE MsgsFromJson(_)
MsgsFromJson(ms) == IF ms = <<>> THEN <<>> ELSE <<FromJson(Head(ms))>> \o MsgsFromJson(Tail(ms))

\* act.n seconds pass, one at a time, the node's threads running to quiescence after each (a long silence as one history step)
RECURSIVE JumpN(_, _)
JumpN(S, k) == IF k = 0 THEN S ELSE JumpN(Quiesce(EnvTick(S)), k - 1)

Apply1(S, act) ==
  CASE act.a = "start"          -> EnvStart(S)
    [] act.a = "plan"           -> [S EXCEPT !.dialPlan = act.plan]
    [] act.a = "connect"        -> EnvConnect(S)
    [] act.a = "addapp"         -> EnvAddApp(S, act.app)
    [] act.a = "feed"           -> EnvFeed(S, act.c, MsgsFromJson(act.ms))
    [] act.a = "garbage"        -> EnvFeed(S, act.c, <<[cmd |-> "GARBAGE"]>>)
    [] act.a = "frag"           -> [EnvFeed(S, act.c, IF act.i < act.n THEN <<>> ELSE <<FromJson(act.m)>>) EXCEPT !.frag[act.c] = act.i < act.n]
    [] act.a = "peer_close"     -> EnvPeerClose(S, act.c)
    [] act.a = "peer_reset"     -> EnvPeerReset(S, act.c)
    [] act.a = "send_error"     -> EnvSendError(S, act.c)
    [] act.a = "stall"          -> EnvStall(S, act.c)
    [] act.a = "connect_result" -> EnvConnectResult(S, act.c, act.err)
    [] act.a = "tick"           -> EnvTick(S)
    [] act.a = "jump"           -> JumpN(S, act.n)
    [] act.a = "stop"           -> EnvStop(S, act.force, act.wait)
    [] act.a = "send"           -> SendRequest(S, act.k, act.app, act.realm, act.timeout, act.pick)
    [] act.a = "submit"         -> LET hs == {j \in 1..Len(S.held) : S.held[j].a = act.app /\ S.held[j].m.hbh = act.m.hbh /\ S.held[j].m.e2e = act.m.e2e
                                                                          /\ S.held[j].c = act.c0}
                                       S1 == IF hs = {} THEN S ELSE [S EXCEPT !.held[CHOOSE j \in hs : \A k \in hs : j <= k].answered = TRUE]
                                   IN SubmitAnswer(S1, act.app, FromJson(act.m))

\* several environment events at the same instant (before any thread of the node runs): [a |-> "multi", acts |-> <<...>>]
RECURSIVE ApplyAll(_, _)
ApplyAll(S, acts) == IF acts = <<>> THEN S ELSE ApplyAll(Apply1(S, Head(acts)), Tail(acts))
Apply(S, act) == IF act.a = "multi" THEN ApplyAll(S, act.acts) ELSE Apply1(S, act)

\* ---------------------------------------------------------------- thread steps as data (interleaving-quantified use)
\* a step names the thread that runs from its current blocking call to the next:
\*   [th |-> "rd" | "wr", c |-> connection]   [th |-> "io"]   [th |-> "proc", c |-> creation number of the worker]
\*   [th |-> "app_recv" | "app_resp", c |-> index of the application]   [th |-> "snd", c |-> sender]   [th |-> "stop"]
ProcAt(S, id) == CHOOSE x \in UNION {{<<k, i>> : i \in 1..Len(S.tapp[AppOrder[k]].procs)} : k \in 1..Len(AppOrder)} :
                   S.tapp[AppOrder[x[1]]].procs[x[2]].id = id
Steps(S) ==
  {[th |-> "rd", c |-> c] : c \in RdReady(S)} \cup {[th |-> "wr", c |-> c] : c \in WrReady(S)} \cup
  (IF IoEnabled(S) THEN {[th |-> "io", c |-> 0]} ELSE {}) \cup
  {[th |-> "proc", c |-> x[1]] : x \in ProcReady(S)} \cup
  {[th |-> "app_recv", c |-> k] : k \in TRecvReady(S)} \cup {[th |-> "app_resp", c |-> k] : k \in TRespReady(S)} \cup
  {[th |-> "snd", c |-> j] : j \in SndReady(S)} \cup
  (IF StatsEnabled(S) THEN {[th |-> "stats", c |-> 0]} ELSE {}) \cup
  (IF StopEnabled(S) THEN {[th |-> "stop", c |-> 0]} ELSE {})
DoStep(S, st) ==
  CASE st.th = "rd" -> RdStep(S, st.c)
    [] st.th = "wr" -> WrStep(S, st.c)
    [] st.th = "io" -> IoIter(S)
    [] st.th = "proc" -> LET x == ProcAt(S, st.c) IN ProcStep(S, AppOrder[x[1]], x[2])
    [] st.th = "app_recv" -> AppRecvOne(S, AppOrder[st.c])
    [] st.th = "app_resp" -> AppRespOne(S, AppOrder[st.c])
    [] st.th = "snd" -> SndStep(S, st.c)
    [] st.th = "stats" -> StatsStep(S)
    [] st.th = "stop" -> StopStep(S)
\* one trace step at the free grain: an environment action alone, or one thread step alone
FreeStepOf(S, act) == IF act.a = "step" THEN DoStep([S EXCEPT !.out = <<>>], act) ELSE Apply([S EXCEPT !.out = <<>>], act)

ConnSt(S, c) == IF c = 0 THEN "" ELSE S.conn[c].st
\* projection of the public state, in exactly the shape the harness records (world.snap)
RECURSIVE SortedSeq(_)
SortedSeq(s) == IF s = {} THEN <<>> ELSE LET m == CHOOSE x \in s : \A y \in s : x <= y IN <<m>> \o SortedSeq(s \ {m})
Proj(S) ==
  [t |-> S.now,
   peers |-> [p \in Peers |-> [conn |-> S.peer[p].conn, st |-> ConnSt(S, S.peer[p].conn), reason |-> S.peer[p].reason,
                               ldisc |-> S.peer[p].lastDisc, lconn |-> S.peer[p].lastConnect, cnt |-> S.peer[p].cnt]],
   conns |-> SortedSeq(ToSet(S.connections)), socks |-> SortedSeq(ToSet(S.peerSockets)),
   apps |-> [a \in Apps |-> IF S.appReady[a] THEN 1 ELSE 0],
   closed |-> SortedSeq({c \in ConnIds : S.conn[c].used /\ S.conn[c].sock = "closed"}),
   cst |-> LET cs == SortedSeq(ToSet(S.connections)) IN [i \in 1..Len(cs) |-> [c |-> cs[i], st |-> S.conn[cs[i]].st]],
   \* sizes of the node's private tables, live worker threads, open sockets (-1 in a trace = not observable)
   tb |-> LET r == Retained(S) IN <<r.connections, r.peerSockets, r.socketPeers, r.halfReady, r.peerWait, r.appWait, r.originWait,
                                    r.threads, r.openSockets + Len(S.backlog)>>]


\* one trace step of the model: environment action, then run to quiescence
StepOf(S, act) == Quiesce(Apply([S EXCEPT !.out = <<>>], act))
TraceStep(S1, act) == [act |-> act, out |-> S1.out, snap |-> Proj(S1)]
=============================================================================
