----------------------------- MODULE Conf_Node -----------------------------
(***************************************************************************)
(* Code -> spec conformance for Node.tla at the atomic grain.  A trace is  *)
(* a sequence of steps [act, out, snap] recorded from the real node in the *)
(* deterministic runtime: one environment action, the observations the     *)
(* node produced until it was quiescent again, and the projection of its   *)
(* public state.  Under the runtime's fixed thread priority the model is   *)
(* deterministic, so validation is evaluation of the spec's next-state     *)
(* function along the trace: TLC computes Quiesce(Apply(S, act)) for every *)
(* step and compares observations and projection; the first disagreement   *)
(* is reported with the model's own view.                                  *)
(***************************************************************************)
EXTENDS NodeEnv, Json, IOUtils

Traces == JsonDeserialize(IOEnv.TRACES)

MsgEq(mm, jm) == /\ mm.cmd = jm.cmd /\ mm.req = jm.req /\ mm.hbh = jm.hbh /\ mm.e2e = jm.e2e
                 /\ mm.app = jm.app /\ mm.rc = jm.rc /\ mm.oh = jm.oh
HdrEq(mm, jm) == mm.cmd = jm.cmd /\ mm.req = jm.req /\ mm.hbh = jm.hbh /\ mm.e2e = jm.e2e /\ mm.app = jm.app
EvMatch(me, je) ==
  /\ me.ev = je.ev
  /\ CASE me.ev \in {"tx", "dispatch"}      -> me.c = je.c /\ MsgEq(me.m, je.m)
       [] me.ev \in {"sock_close", "accept"} -> me.c = je.c
       [] me.ev = "dial"                     -> me.c = je.c /\ me.p = je.p /\ me.r = je.r
       [] me.ev = "app_req"                  -> me.a = je.a /\ me.c = je.c /\ MsgEq(me.m, je.m)
       [] me.ev = "app_ans"                  -> me.a = je.a /\ MsgEq(me.m, je.m)
       [] me.ev = "submit"                   -> me.a = je.a /\ HdrEq(me.m, je.m) /\ me.r = je.r
       [] me.ev = "select"                   -> me.a = je.a /\ me.offered = je.offered
       [] me.ev = "thread_exit"              -> me.th = je.th /\ me.exc = je.exc
       [] me.ev = "stop_done"                -> me.r = je.r /\ me.listen = je.listen /\ me.nodeThreads = je.nodeThreads
       [] me.ev = "req_result"               -> me.k = je.k /\ me.r = je.r /\ (me.r = "NotRoutable" \/ (me.hbh = je.hbh /\ me.e2e = je.e2e))
OutMatch(mo, jo) == Len(mo) = Len(jo) /\ \A i \in 1..Len(mo) : EvMatch(mo[i], jo[i])

SnapMatch(S, js) ==
  LET pj == Proj(S) IN
  /\ pj.t = js.t
  /\ \A p \in Peers : pj.peers[p] = js.peers[p]
  /\ pj.conns = js.conns /\ pj.socks = js.socks /\ pj.closed = js.closed /\ pj.cst = js.cst
  /\ \A a \in Apps : pj.apps[a] = js.apps[a]
  /\ \A i \in 1..Len(pj.tb) : js.tb[i] = -1 \/ js.tb[i] = pj.tb[i]

\* trace steps recorded at the free grain (field free = TRUE) hold one environment action or one thread step alone
IsFree(st) == "free" \in DOMAIN st /\ st.free
RECURSIVE Run(_, _, _)
Run(S, steps, i) ==
  IF i > Len(steps) THEN [ok |-> TRUE, at |-> 0]
  ELSE LET S1 == IF IsFree(steps[i]) THEN FreeStepOf(S, steps[i].act) ELSE Quiesce(Apply([S EXCEPT !.out = <<>>], steps[i].act))
           om == OutMatch(S1.out, steps[i].out)
           sm == SnapMatch(S1, steps[i].snap)
       IN IF om /\ sm THEN Run(S1, steps, i + 1)
          ELSE [ok |-> FALSE, at |-> i, outok |-> om, snapok |-> sm, out |-> S1.out, snap |-> Proj(S1)]

ASSUME JsonSerialize(IOEnv.OUT, [i \in 1..Len(Traces) |-> Run(InitState, Traces[i], 1)])

VARIABLE x
EvInit == x = 0
EvNext == UNCHANGED x
=============================================================================
