------------------------------ MODULE WriteBuf ------------------------------
(***************************************************************************)
(* Outbound path of one connection (peer.py / node.py):                    *)
(*   Queuer   any thread calling PeerConnection.add_out_msg                *)
(*   Writer   PeerConnection.work_write_queue (encodes under write_lock)   *)
(*   Io       the send branch of Node._handle_connections                  *)
(* Labels are source lines; the `+=` of the write buffer is a load (wrd)   *)
(* and a store (wst) separated by the call of as_bytes().                  *)
(* Property C15: the bytes accepted by the socket are the concatenation of *)
(* the encodings of the queued messages in queueing order, each once and   *)
(* contiguous, for every partial-write pattern and interleaving; a message *)
(* that cannot be encoded is dropped alone.                                *)
(***************************************************************************)
EXTENDS Naturals, Sequences, FiniteSets, SequencesExt, TLC

CONSTANTS Queuers,      \* set of queueing threads
          Plan,         \* Plan[q] = sequence of message ids q enqueues
          EncLen,       \* EncLen[m] = length of m's encoding; 0 = cannot be encoded
          WriterLocks,  \* TRUE in the code: `with self.write_lock` around the append
          IoLocks       \* TRUE in the code: `with conn.write_lock` around remove_out_bytes

Enc(m) == [i \in 1..EncLen[m] |-> <<m, i>>]
RECURSIVE Flat(_)
Flat(ms) == IF ms = <<>> THEN <<>> ELSE Enc(Head(ms)) \o Flat(Tail(ms))

(* --algorithm WriteBuf {
  variables wq = <<>>,        \* _write_msg_queue
            order = <<>>,     \* history: queueing order
            wbuf = <<>>,      \* _write_buffer
            lock = "free",    \* write_lock
            sent = <<>>;      \* history: bytes accepted by socket.send
  process (Q \in Queuers)
    variable i = 1;
  {
   enq: while (i <= Len(Plan[self])) {
          wq := Append(wq, Plan[self][i]);                  \* add_out_msg: Queue.put
          order := Append(order, Plan[self][i]);
          i := i + 1;
        }
  }
  process (W = "writer")
    variables m = 0, tmp = <<>>;
  {
   wget: while (TRUE) {
           await wq # <<>>; m := Head(wq); wq := Tail(wq);   \* Queue.get
     wacq: if (WriterLocks) { await lock = "free"; lock := "w"; };       \* with self.write_lock:
     wrd:  tmp := wbuf;                                                    \* load self._write_buffer
     wst:  if (EncLen[m] > 0) { wbuf := tmp \o Enc(m); };                  \* as_bytes() returned; += stores
                                                                           \* (as_bytes raised: nothing stored, message discarded)
     wrel: if (WriterLocks) { lock := "free"; };
         }
  }
  process (Io = "io")
    variables snap = <<>>, k = 0;
  {
   isel: while (TRUE) {
           await wbuf # <<>>; snap := wbuf;                  \* socket writable; argument of wsock.send(conn.write_buffer)
     isnd: with (j \in 0..Len(snap)) { k := j; };            \* accepted bytes; 0 = EAGAIN / EINTR / ENOBUFS
           if (k > 0) {
             sent := sent \o SubSeq(snap, 1, k);
     iacq:   if (IoLocks) { await lock = "free"; lock := "io"; };         \* with conn.write_lock:
     irm:    wbuf := SubSeq(wbuf, k + 1, Len(wbuf));                       \* remove_out_bytes(sent_bytes)
     irel:   if (IoLocks) { lock := "free"; };
           }
         }
  }
} *)
\* BEGIN TRANSLATION
VARIABLES pc, wq, order, wbuf, lock, sent, i, m, tmp, snap, k

vars == << pc, wq, order, wbuf, lock, sent, i, m, tmp, snap, k >>

ProcSet == (Queuers) \cup {"writer"} \cup {"io"}

Init == (* Global variables *)
        /\ wq = <<>>
        /\ order = <<>>
        /\ wbuf = <<>>
        /\ lock = "free"
        /\ sent = <<>>
        (* Process Q *)
        /\ i = [self \in Queuers |-> 1]
        (* Process W *)
        /\ m = 0
        /\ tmp = <<>>
        (* Process Io *)
        /\ snap = <<>>
        /\ k = 0
        /\ pc = [self \in ProcSet |-> CASE self \in Queuers -> "enq"
                                        [] self = "writer" -> "wget"
                                        [] self = "io" -> "isel"]

enq(self) == /\ pc[self] = "enq"
             /\ IF i[self] <= Len(Plan[self])
                   THEN /\ wq' = Append(wq, Plan[self][i[self]])
                        /\ order' = Append(order, Plan[self][i[self]])
                        /\ i' = [i EXCEPT ![self] = i[self] + 1]
                        /\ pc' = [pc EXCEPT ![self] = "enq"]
                   ELSE /\ pc' = [pc EXCEPT ![self] = "Done"]
                        /\ UNCHANGED << wq, order, i >>
             /\ UNCHANGED << wbuf, lock, sent, m, tmp, snap, k >>

Q(self) == enq(self)

wget == /\ pc["writer"] = "wget"
        /\ wq # <<>>
        /\ m' = Head(wq)
        /\ wq' = Tail(wq)
        /\ pc' = [pc EXCEPT !["writer"] = "wacq"]
        /\ UNCHANGED << order, wbuf, lock, sent, i, tmp, snap, k >>

wacq == /\ pc["writer"] = "wacq"
        /\ IF WriterLocks
              THEN /\ lock = "free"
                   /\ lock' = "w"
              ELSE /\ TRUE
                   /\ lock' = lock
        /\ pc' = [pc EXCEPT !["writer"] = "wrd"]
        /\ UNCHANGED << wq, order, wbuf, sent, i, m, tmp, snap, k >>

wrd == /\ pc["writer"] = "wrd"
       /\ tmp' = wbuf
       /\ pc' = [pc EXCEPT !["writer"] = "wst"]
       /\ UNCHANGED << wq, order, wbuf, lock, sent, i, m, snap, k >>

wst == /\ pc["writer"] = "wst"
       /\ IF EncLen[m] > 0
             THEN /\ wbuf' = tmp \o Enc(m)
             ELSE /\ TRUE
                  /\ wbuf' = wbuf
       /\ pc' = [pc EXCEPT !["writer"] = "wrel"]
       /\ UNCHANGED << wq, order, lock, sent, i, m, tmp, snap, k >>

wrel == /\ pc["writer"] = "wrel"
        /\ IF WriterLocks
              THEN /\ lock' = "free"
              ELSE /\ TRUE
                   /\ lock' = lock
        /\ pc' = [pc EXCEPT !["writer"] = "wget"]
        /\ UNCHANGED << wq, order, wbuf, sent, i, m, tmp, snap, k >>

W == wget \/ wacq \/ wrd \/ wst \/ wrel

isel == /\ pc["io"] = "isel"
        /\ wbuf # <<>>
        /\ snap' = wbuf
        /\ pc' = [pc EXCEPT !["io"] = "isnd"]
        /\ UNCHANGED << wq, order, wbuf, lock, sent, i, m, tmp, k >>

isnd == /\ pc["io"] = "isnd"
        /\ \E j \in 0..Len(snap):
             k' = j
        /\ IF k' > 0
              THEN /\ sent' = sent \o SubSeq(snap, 1, k')
                   /\ pc' = [pc EXCEPT !["io"] = "iacq"]
              ELSE /\ pc' = [pc EXCEPT !["io"] = "isel"]
                   /\ sent' = sent
        /\ UNCHANGED << wq, order, wbuf, lock, i, m, tmp, snap >>

iacq == /\ pc["io"] = "iacq"
        /\ IF IoLocks
              THEN /\ lock = "free"
                   /\ lock' = "io"
              ELSE /\ TRUE
                   /\ lock' = lock
        /\ pc' = [pc EXCEPT !["io"] = "irm"]
        /\ UNCHANGED << wq, order, wbuf, sent, i, m, tmp, snap, k >>

irm == /\ pc["io"] = "irm"
       /\ wbuf' = SubSeq(wbuf, k + 1, Len(wbuf))
       /\ pc' = [pc EXCEPT !["io"] = "irel"]
       /\ UNCHANGED << wq, order, lock, sent, i, m, tmp, snap, k >>

irel == /\ pc["io"] = "irel"
        /\ IF IoLocks
              THEN /\ lock' = "free"
              ELSE /\ TRUE
                   /\ lock' = lock
        /\ pc' = [pc EXCEPT !["io"] = "isel"]
        /\ UNCHANGED << wq, order, wbuf, sent, i, m, tmp, snap, k >>

Io == isel \/ isnd \/ iacq \/ irm \/ irel

Next == W \/ Io
           \/ (\E self \in Queuers: Q(self))

Spec == Init /\ [][Next]_vars

\* END TRANSLATION

Encodable(ms) == SelectSeq(ms, LAMBDA x : EncLen[x] > 0)
\* the bytes handed to the transport are always a prefix of what was queued, in queueing order
SentOk == IsPrefix(sent, Flat(Encodable(order)))
\* nothing is lost or duplicated: when everything has drained, exactly the queued bytes were sent
Drained == /\ \A q \in Queuers : pc[q] = "Done"
           /\ wq = <<>> /\ pc["writer"] = "wget" /\ wbuf = <<>> /\ pc["io"] = "isel"
FinalOk == Drained => sent = Flat(Encodable(order))
\* conservation at points where neither the writer nor the I/O loop is mid-update
Conserve == (pc["writer"] = "wget" /\ pc["io"] \in {"isel", "isnd"}) =>
              sent \o wbuf \o Flat(Encodable(wq)) = Flat(Encodable(order))
EventuallyDrained == <>[]Drained
=============================================================================
