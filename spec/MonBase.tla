------------------------------ MODULE MonBase ------------------------------
(***************************************************************************)
(* Common vocabulary of the property monitors Mon_Cxx.  A monitor is a     *)
(* state machine over trace steps [act, out, snap] (one environment action,*)
(* the observations the node produced until quiescent, the projection of   *)
(* its public state).  It is written as an operator Step(M, st) so that    *)
(* the same text is (1) folded by TLC over histories recorded from the     *)
(* real node and (2) composed with Node.tla for exhaustive model checking. *)
(* Monitors state the property and nothing more; violations are collected  *)
(* as signature records in M.viol.                                         *)
(***************************************************************************)
EXTENDS Integers, Sequences, FiniteSets, SequencesExt

CONSTANT MCfg     \* [node, peerOrder, peers, appOrder, apps]; apps[a].peers / .realms are sequences

MaxC == 12        \* connection ids a monitor tracks
CIds == 1..MaxC
MPeers == ToSet(MCfg.peerOrder)
MApps  == ToSet(MCfg.appOrder)
READY == {"READY", "WAITDWA"}

Eff(p, f) == IF p # "" /\ p \in MPeers /\ MCfg.peers[p][f] # 0 THEN MCfg.peers[p][f] ELSE MCfg.node[f]
InConns(sn, c) == \E i \in 1..Len(sn.conns) : sn.conns[i] = c
InSocks(sn, c) == \E i \in 1..Len(sn.socks) : sn.socks[i] = c
IsClosed(sn, c) == \E i \in 1..Len(sn.closed) : sn.closed[i] = c
CstOf(sn, c) == IF \E i \in 1..Len(sn.cst) : sn.cst[i].c = c
                THEN sn.cst[CHOOSE i \in 1..Len(sn.cst) : sn.cst[i].c = c].st ELSE ""
Key(m) == <<m.code, m.app, m.hbh, m.e2e>>
Has(s, x) == \E i \in 1..Len(s) : s[i] = x
V(M, sig) == [M EXCEPT !.viol = @ \cup {[sig |-> sig, at |-> M.i]}]
Txs(out, c) == SelectSeq(out, LAMBDA e : e.ev = "tx" /\ e.c = c)
HasEv(out, P(_)) == \E i \in 1..Len(out) : P(out[i])
NodeAuth == {MCfg.apps[a].id : a \in {x \in MApps : MCfg.apps[x].auth}}
NodeAcct == {MCfg.apps[a].id : a \in {x \in MApps : MCfg.apps[x].acct}}
\* applications registered while the node runs (act "addapp"): monitors that speak about applications track the set registered so far
IsLate(a) == "late" \in DOMAIN MCfg.apps[a] /\ MCfg.apps[a].late
RegApps(reg) == {a \in MApps : ~IsLate(a) \/ a \in reg}
RegNext(reg, st) == IF st.act.a = "addapp" THEN reg \cup {st.act.app} ELSE reg
NodeAuthR(reg) == {MCfg.apps[a].id : a \in {x \in RegApps(reg) : MCfg.apps[x].auth}}
NodeAcctR(reg) == {MCfg.apps[a].id : a \in {x \in RegApps(reg) : MCfg.apps[x].acct}}
IsFeed(st) == st.act.a = "feed"
\* bytes that do not (yet) form a message: a fragment of a message, or undecodable bytes
IsRx(st) == st.act.a = "rx"
\* monitors see a message delivered in several network reads as "rx" steps followed by a feed of the message
NormAct(a) == IF a.a = "frag" THEN (IF a.i = a.n THEN [a |-> "feed", c |-> a.c, ms |-> <<a.m>>] ELSE [a |-> "rx", c |-> a.c])
              ELSE IF a.a = "garbage" THEN [a |-> "rx", c |-> a.c] ELSE a
\* identities are compared case-insensitively: monitors see the configured spelling of a peer's name (MCfg.canon: other
\* spellings the environment uses |-> configured name), in the messages fed and in the messages dispatched / delivered
CanonH(h) == IF "canon" \in DOMAIN MCfg /\ h \in DOMAIN MCfg.canon THEN MCfg.canon[h] ELSE h
\* (ohs keeps the name as spelled: the duplicate-detection windows of C17 are per Origin-Host as it appears in the messages)
WithSpelling(m) == [f \in DOMAIN m \cup {"ohs"} |-> IF f = "ohs" THEN m.oh ELSE IF f = "oh" THEN CanonH(m.oh) ELSE m[f]]
CanonAct(a) == IF a.a = "feed" THEN [a EXCEPT !.ms = [i \in 1..Len(@) |-> WithSpelling(@[i])]] ELSE a
Spelled(m) == IF "ohs" \in DOMAIN m THEN m.ohs ELSE m.oh
CanonOut(out) == [i \in 1..Len(out) |-> IF out[i].ev \in {"dispatch", "app_req"} THEN [out[i] EXCEPT !.m.oh = CanonH(@)] ELSE out[i]]
Norm(st) == [act |-> CanonAct(NormAct(st.act)), out |-> CanonOut(st.out), snap |-> st.snap]
=============================================================================
