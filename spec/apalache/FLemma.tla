------------------------------- MODULE FLemma -------------------------------
(* Arithmetic of F(s, i) = ((s - 1 + i) mod MAX) + 1 over unconstrained integers (Apalache / Z3):     *)
(* values are in 1..MAX (never zero), the successor of MAX is 1 and of anything else is + 1, and two   *)
(* indexes fewer than MAX apart give different values.                                                *)
EXTENDS Integers
MAX == 4294967295
F(s, i) == ((s - 1 + i) % MAX) + 1
VARIABLES
  \* @type: Int;
  s,
  \* @type: Int;
  i,
  \* @type: Int;
  j
Init == s \in Int /\ i \in Int /\ j \in Int /\ s >= 1 /\ s <= MAX /\ i >= 0 /\ j >= 0
Next == UNCHANGED <<s, i, j>>
Lemma == /\ F(s, i) >= 1 /\ F(s, i) <= MAX
         /\ F(s, 0) = s
         /\ F(s, i + 1) = (IF F(s, i) = MAX THEN 1 ELSE F(s, i) + 1)
         /\ ((i # j /\ i - j < MAX /\ j - i < MAX) => F(s, i) # F(s, j))
=============================================================================
