----------------------------- MODULE SeqGenInd -----------------------------
(***************************************************************************)
(* C16 without bounds, for Apalache: the locked generator of SeqGen.tla    *)
(* (same labels, same actions, Locked = TRUE) with the real MAX = 2^32 - 1,*)
(* callers that draw for ever, and the history variables of SeqGen (got,   *)
(* order) replaced by a count of values handed out (k) and, per caller,    *)
(* the index and value of its latest draw.                                 *)
(*                                                                         *)
(* IndInv is inductive (Apalache: IndInit => IndInv at length 0,           *)
(* IndInv /\ Next => IndInv' at length 1) and says that the n-th value     *)
(* ever handed out is F(start, n) = ((start - 1 + n) mod MAX) + 1.         *)
(* FLemma (checked over unconstrained integers) then gives C16's clauses   *)
(* for any number of draws: never zero, successor of MAX is 1, and two     *)
(* draws fewer than MAX apart differ - "pairwise distinct until the        *)
(* counter space wraps".  TLC checks the same relation (OrderIsF) on the   *)
(* history variable of SeqGen.tla for small MAX, which ties the two specs. *)
(***************************************************************************)
EXTENDS Integers

\* @type: Set(Str);
Callers == {"c1", "c2", "c3"}
MAX == 4294967295
NoOne == "none"
PCs == {"loop", "acq", "chk", "wrap", "inc", "ret", "rel"}

VARIABLES
  \* @type: Int;
  seq,
  \* @type: Int;
  start,
  \* @type: Str;
  lock,
  \* @type: Str -> Str;
  pc,
  \* @type: Int;
  k,
  \* @type: Str -> Int;
  idx,
  \* @type: Str -> Int;
  val

vars == <<seq, start, lock, pc, k, idx, val>>

F(s, i) == ((s - 1 + i) % MAX) + 1

Init == /\ seq \in Int /\ seq >= 1 /\ seq <= MAX
        /\ start = seq /\ lock = NoOne /\ k = 0
        /\ pc = [c \in Callers |-> "loop"]
        /\ idx = [c \in Callers |-> 0] /\ val = [c \in Callers |-> 0]

loop(c) == pc[c] = "loop" /\ pc' = [pc EXCEPT ![c] = "acq"] /\ UNCHANGED <<seq, start, lock, k, idx, val>>
acq(c)  == pc[c] = "acq" /\ lock = NoOne /\ lock' = c /\ pc' = [pc EXCEPT ![c] = "chk"] /\ UNCHANGED <<seq, start, k, idx, val>>
chk(c)  == pc[c] = "chk" /\ pc' = [pc EXCEPT ![c] = IF seq = MAX THEN "wrap" ELSE "inc"] /\ UNCHANGED <<seq, start, lock, k, idx, val>>
wrap(c) == pc[c] = "wrap" /\ seq' = 1 /\ pc' = [pc EXCEPT ![c] = "ret"] /\ UNCHANGED <<start, lock, k, idx, val>>
inc(c)  == pc[c] = "inc" /\ seq' = seq + 1 /\ pc' = [pc EXCEPT ![c] = "ret"] /\ UNCHANGED <<start, lock, k, idx, val>>
ret(c)  == pc[c] = "ret" /\ val' = [val EXCEPT ![c] = seq] /\ idx' = [idx EXCEPT ![c] = k + 1] /\ k' = k + 1
           /\ pc' = [pc EXCEPT ![c] = "rel"] /\ UNCHANGED <<seq, start, lock>>
rel(c)  == pc[c] = "rel" /\ lock' = NoOne /\ pc' = [pc EXCEPT ![c] = "loop"] /\ UNCHANGED <<seq, start, k, idx, val>>

Next == \E c \in Callers : loop(c) \/ acq(c) \/ chk(c) \/ wrap(c) \/ inc(c) \/ ret(c) \/ rel(c)

Inside(c) == pc[c] \in {"chk", "wrap", "inc", "ret", "rel"}

IndInv ==
  /\ seq >= 1 /\ seq <= MAX /\ start >= 1 /\ start <= MAX /\ k >= 0
  /\ lock \in Callers \cup {NoOne}
  /\ \A c \in Callers : pc[c] \in PCs
  /\ \A c \in Callers : Inside(c) <=> lock = c
  \* the counter is F(start, number of values handed out) - one ahead between the increment and the return
  /\ seq = IF \E c \in Callers : pc[c] = "ret" THEN F(start, k + 1) ELSE F(start, k)
  /\ \A c \in Callers : (pc[c] = "wrap" => seq = MAX) /\ (pc[c] = "inc" => seq # MAX)
  \* every caller's latest draw: its index among all draws, and the value F gives for that index
  /\ \A c \in Callers : idx[c] >= 0 /\ idx[c] <= k /\ (idx[c] = 0 => val[c] = 0) /\ (idx[c] > 0 => val[c] = F(start, idx[c]))
  /\ \A c, d \in Callers : (c # d /\ idx[c] > 0) => idx[c] # idx[d]
  /\ \A c \in Callers : pc[c] = "rel" => idx[c] = k

\* the arbitrary state Apalache starts the induction step from
IndInit == /\ seq \in Int /\ start \in Int /\ k \in Int
           /\ lock \in Callers \cup {NoOne}
           /\ pc \in [Callers -> PCs]
           /\ idx \in [Callers -> Int] /\ val \in [Callers -> Int]
           /\ IndInv

\* C16 on the latest draws of any two callers (all draws are latest draws at some point)
Safety == /\ \A c \in Callers : idx[c] > 0 => (val[c] >= 1 /\ val[c] <= MAX)
          /\ \A c, d \in Callers : (c # d /\ idx[c] > 0 /\ idx[d] > 0 /\ idx[c] - idx[d] < MAX /\ idx[d] - idx[c] < MAX) => val[c] # val[d]
=============================================================================
