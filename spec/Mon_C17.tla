------------------------------ MODULE Mon_C17 ------------------------------
(* C17: a request flagged T whose origin host and end-to-end identifier equal those of a request *)
(* the node has already answered - within the configured number of most recent answers to that    *)
(* origin - is answered 5012 by the node itself and is not delivered to any application again;    *)
(* requests without the flag, or with identifiers not yet answered, are never rejected as          *)
(* duplicates.  Judged for requests received alone in a network read; "answered" = an answer to a  *)
(* request of that origin was handed to the transport.                                             *)
EXTENDS MonRoute

Init == [i |-> 0, viol |-> {}, R |-> RInit,
         win  |-> [h \in MPeers \cup {"x.r9", ""} \cup (IF "canon" \in DOMAIN MCfg THEN DOMAIN MCfg.canon ELSE {}) |-> <<>>],   \* per origin: end-to-end ids of the most recent answers
         pend |-> [c \in CIds |-> <<>>]]                      \* requests received and not yet answered: [key, oh, e2e]

Hosts == MPeers \cup {"x.r9", ""} \cup (IF "canon" \in DOMAIN MCfg THEN DOMAIN MCfg.canon ELSE {})
Push(w, e) == LET a == Append(w, e) IN IF Len(a) > MCfg.node.retx THEN SubSeq(a, Len(a) - MCfg.node.retx + 1, Len(a)) ELSE a

StepN(M, st) ==
  LET M0 == [M EXCEPT !.i = @ + 1]
      R  == M0.R
      feed == IsFeed(st)
      out == st.out
      c0 == IF feed THEN st.act.c ELSE 0
      single == feed /\ Len(st.act.ms) = 1
      m  == st.act.ms[1]
      p  == R.peer[c0]
      judged == single /\ m.req /\ InService(R, c0) /\ ~IsClosed(st.snap, c0) /\ (m.typed \/ m.oh # "") /\ m.oh \in Hosts
      isDup == judged /\ m.T /\ \E k \in 1..Len(M0.win[Spelled(m)]) : M0.win[Spelled(m)][k] = m.e2e
      deliv == {j \in 1..Len(out) : out[j].ev = "app_req" /\ Key(out[j].m) = Key(m)}
      answers == {j \in 1..Len(out) : out[j].ev = "tx" /\ out[j].c = c0 /\ ~out[j].m.req /\ Key(out[j].m) = Key(m)}
      otherErr == m.cmd # "APP" \/ ~m.typed \/ p \notin MPeers \/ Applicable(m, p) # {}
      vDup == IF isDup /\ m.cmd = "APP"
              THEN (IF deliv # {} THEN {"retransmitted_duplicate_delivered_again"} ELSE {}) \cup
                   (IF ~\E j \in answers : out[j].m.rc \in ({5012} \cup (IF m.typed THEN Applicable(m, p) ELSE {0})) THEN {"retransmitted_duplicate_not_answered_5012"} ELSE {})
              ELSE {}
      vFalse == IF judged /\ ~isDup /\ ~otherErr /\ deliv = {} /\ (\E j \in answers : out[j].m.rc = 5012)
                THEN {"request_falsely_rejected_as_duplicate"} ELSE {}
      sigs == vDup \cup vFalse
      \* ---- bookkeeping: pending requests per connection, windows per origin
      pend1 == IF feed THEN [M0.pend EXCEPT ![c0] = @ \o [j \in 1..Len(SelectSeq(st.act.ms, LAMBDA x : x.req)) |->
                               LET x == SelectSeq(st.act.ms, LAMBDA y : y.req)[j] IN [key |-> Key(x), oh |-> Spelled(x), e2e |-> x.e2e]]]
               ELSE M0.pend
      OnOut(A, e) ==
        IF e.ev = "tx" /\ ~e.m.req /\ e.c \in CIds /\ \E k \in 1..Len(A.pend[e.c]) : A.pend[e.c][k].key = Key(e.m)
        \* (the most recent request with these identifiers: older ones that were ignored are never answered)
        THEN LET k == CHOOSE k \in 1..Len(A.pend[e.c]) : A.pend[e.c][k].key = Key(e.m) /\ \A z \in (k + 1)..Len(A.pend[e.c]) : A.pend[e.c][z].key # Key(e.m)
                 r == A.pend[e.c][k]
             IN [A EXCEPT !.pend[e.c] = SubSeq(@, 1, k - 1) \o SubSeq(@, k + 1, Len(@)),
                          !.win = IF r.oh \in Hosts THEN [@ EXCEPT ![r.oh] = Push(@, r.e2e)] ELSE @]
        ELSE A
      A == FoldLeft(OnOut, [pend |-> pend1, win |-> M0.win], out)
  IN [M0 EXCEPT !.viol = @ \cup {[sig |-> s, at |-> M0.i] : s \in sigs}, !.R = RUpdate(R, st), !.pend = A.pend, !.win = A.win]
Step(M, s0) == StepN(M, Norm(s0))
=============================================================================
