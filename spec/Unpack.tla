------------------------------- MODULE Unpack -------------------------------
(***************************************************************************)
(* The decoder's cursor: Avp.from_unpacker called in a loop over one       *)
(* buffer (Message.from_bytes after the 20-octet header, AvpGrouped.value  *)
(* over a grouped payload).  Octet values do not matter for the cursor,    *)
(* only the V flag and the 24-bit length field of each AVP header, which   *)
(* an adversary chooses freely.                                            *)
(*   header:  code(4) flags+length(4) [vendor(4) if V]                     *)
(*   payload: length - 8 (- 4 if V) octets, padded to a multiple of 4;     *)
(*            a length field smaller than the header gives an empty payload*)
(* C04: decoding terminates, never reads beyond the buffer, and ends with  *)
(* a result or the library's decode error.                                 *)
(***************************************************************************)
EXTENDS Integers, Sequences

CONSTANTS MaxBuf,     \* buffer lengths explored
          MaxField    \* largest value of a length field explored

VARIABLES mode,       \* "loop": decode until the buffer is used up (message body, grouped payload);
                      \* "single": Avp.from_bytes - exactly one call, trailing octets are ignored
          len,        \* length of the buffer handed to the unpacker
          pos,        \* cursor
          navp,       \* AVPs decoded so far
          out         \* "run" | "ok" | "error"

vars == <<mode, len, pos, navp, out>>

Padded(n) == ((n + 3) \div 4) * 4

Init == mode \in {"loop", "single"} /\ len \in 0..MaxBuf /\ pos = 0 /\ navp = 0 /\ out = "run"

\* one call of Avp.from_unpacker with adversarial header contents (v = V flag, L = length field)
Step(v, L) ==
  /\ out = "run" /\ (pos < len \/ mode = "single")
  /\ LET hdr == IF v THEN 12 ELSE 8
         pl  == L - hdr                       \* avp_length after the subtractions
         pad == IF pl > 0 THEN Padded(pl) ELSE 0
     IN IF pos + 8 > len \/ (v /\ pos + 12 > len)           \* unpack_uint: "Not enough bytes left"
        THEN out' = "error" /\ UNCHANGED <<pos, navp>>
        ELSE IF pos + hdr + pad > len                       \* unpack_fopaque: "Not enough bytes left"
        THEN out' = "error" /\ UNCHANGED <<pos, navp>>
        ELSE /\ pos' = pos + hdr + pad /\ navp' = navp + 1
             /\ out' = IF pos' >= len \/ mode = "single" THEN "ok" ELSE "run"
  /\ UNCHANGED <<mode, len>>

Empty == mode = "loop" /\ out = "run" /\ pos >= len /\ out' = "ok" /\ UNCHANGED <<mode, len, pos, navp>>      \* nothing to decode

Next == Empty \/ \E v \in BOOLEAN, L \in 0..MaxField : Step(v, L)
Spec == Init /\ [][Next]_vars
Fair == Spec /\ WF_vars(Next)

\* ---------------------------------------------------------------- properties
InBuffer  == pos <= len                                   \* never consumes octets beyond the supplied buffer
Advance   == [][pos' # pos => pos' >= pos + 8]_vars       \* every decoded AVP consumes at least its 8-octet header
Bounded   == navp * 8 <= len                              \* hence at most len/8 AVPs: linear in the input
Outcomes  == out \in {"run", "ok", "error"}
Terminates == <>(out # "run")
=============================================================================
