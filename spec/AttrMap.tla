------------------------------ MODULE AttrMap ------------------------------
(***************************************************************************)
(* Typed command / grouped-container attributes <-> AVPs (C03).            *)
(*                                                                         *)
(* Tab : class name -> table; a table is the class's avp_def as data       *)
(*   [name, defs : Seq([attr, code, vendor, req, mand (-1 dictionary / 0 / 1),*)
(*                      cont (container class name or ""), dx (dictionary   *)
(*                      entry exists), dg (entry is Grouped), dm (entry's   *)
(*                      mandatory flag), list (attribute holds a list),     *)
(*                      annotated, listann, listdef (what the class's        *)
(*                      annotation and a fresh instance say about that)]),   *)
(*    annonly : Seq(attr) (annotated public attributes without a definition)]*)
(* The tables are read from the code under test (the "programs" the        *)
(* property quantifies over); what follows is written from the property:   *)
(*   WellFormed  - each attribute one dictionary AVP, container => Grouped, *)
(*                 no two attributes the same AVP, no attribute twice       *)
(*   Gen         - attributes that are set -> AVP tree (one AVP per set     *)
(*                 scalar, one per list element, declaration order,        *)
(*                 undeclared AVPs carried behind them unchanged)           *)
(*   Restore     - AVP tree -> attributes (inverse of Gen on well-formed    *)
(*                 tables)                                                  *)
(*   Expose      - untyped commands: AVP tree -> attribute names / values   *)
(***************************************************************************)
EXTENDS Integers, Sequences, FiniteSets, SequencesExt

CONSTANT Tab

Flat(ss) == FoldLeft(LAMBDA acc, s : acc \o s, <<>>, ss)          \* concatenate a sequence of sequences
Filter(s, P(_)) == SelectSeq(s, P)

\* ------------------------------------------------------------ WellFormed
Viol(t) ==
  LET D == t.defs
      I == DOMAIN D
  IN    {[k |-> "no_dictionary_entry", attr |-> D[i].attr, other |-> ""] : i \in {i \in I : ~D[i].dx}}
   \cup {[k |-> "container_but_not_grouped", attr |-> D[i].attr, other |-> D[i].cont] :
              i \in {i \in I : D[i].cont # "" /\ D[i].dx /\ ~D[i].dg}}
   \cup {[k |-> "container_unknown", attr |-> D[i].attr, other |-> D[i].cont] :
              i \in {i \in I : D[i].cont # "" /\ D[i].cont \notin DOMAIN Tab}}
   \cup {[k |-> "two_attributes_same_avp", attr |-> D[p[2]].attr, other |-> D[p[1]].attr] :
              p \in {p \in I \X I : p[1] < p[2] /\ D[p[1]].code = D[p[2]].code /\ D[p[1]].vendor = D[p[2]].vendor
                                     /\ D[p[1]].attr # D[p[2]].attr}}
   \cup {[k |-> "attribute_declared_twice", attr |-> D[p[2]].attr, other |-> ""] :
              p \in {p \in I \X I : p[1] < p[2] /\ D[p[1]].attr = D[p[2]].attr}}
   \* the class's own declarations agree: an attribute annotated list[...] holds a list on a fresh instance (decoding appends to
   \* it; otherwise only the last element received survives) and vice versa; every annotated attribute has a definition
   \cup {[k |-> "list_attribute_not_initialised_as_list", attr |-> D[i].attr, other |-> ""] :
              i \in {i \in I : D[i].annotated /\ D[i].listann /\ ~D[i].listdef}}
   \cup {[k |-> "list_default_for_attribute_not_annotated_as_list", attr |-> D[i].attr, other |-> ""] :
              i \in {i \in I : D[i].annotated /\ ~D[i].listann /\ D[i].listdef}}
   \cup {[k |-> "annotated_attribute_without_definition", attr |-> t.annonly[i], other |-> ""] : i \in DOMAIN t.annonly}
WellFormed(t) == Viol(t) = {}

\* the declaration of an attribute: its first occurrence in the table
FirstDefs(t) == LET D == t.defs IN
  SelectSeq([i \in DOMAIN D |-> [d |-> D[i], first |-> \A j \in 1..(i-1) : D[j].attr # D[i].attr]], LAMBDA x : x.first)

MFlag(d) == IF d.mand = -1 THEN d.dm ELSE d.mand = 1

\* ------------------------------------------------------------ Gen
\* obj = [set : Seq([attr, elems : Seq(elem)]), extra : Seq(node)]
\* elem = [leaf : Nat (value id; 0 for containers), set, extra]      node = [code, vendor, M, leaf, kids]
RECURSIVE Gen(_, _)
Gen(tn, obj) ==
  LET t == Tab[tn]
      F == FirstDefs(t)
      ForDef(d) ==
        LET hits == SelectSeq(obj.set, LAMBDA s : s.attr = d.attr)
        IN IF hits = <<>> THEN <<>>
           ELSE LET es == hits[1].elems IN
                [j \in DOMAIN es |-> [code |-> d.code, vendor |-> d.vendor, M |-> MFlag(d), leaf |-> es[j].leaf,
                                      kids |-> IF d.cont # "" THEN Gen(d.cont, [set |-> es[j].set, extra |-> es[j].extra]) ELSE <<>>]]
  IN Flat([i \in DOMAIN F |-> ForDef(F[i].d)]) \o obj.extra

\* ------------------------------------------------------------ Restore
RECURSIVE Restore(_, _)
Restore(tn, nodes) ==
  LET t == Tab[tn]
      F == FirstDefs(t)
      Match(d, n) == n.code = d.code /\ n.vendor = d.vendor
      Declared(n) == \E i \in DOMAIN F : Match(F[i].d, n)
      ForDef(d) ==
        LET ns == SelectSeq(nodes, LAMBDA n : Match(d, n))
        IN IF ns = <<>> THEN <<>>
           ELSE << [attr |-> d.attr,
                    elems |-> [j \in DOMAIN ns |->
                                 IF d.cont # "" THEN LET r == Restore(d.cont, ns[j].kids) IN [leaf |-> 0, set |-> r.set, extra |-> r.extra]
                                 ELSE [leaf |-> ns[j].leaf, set |-> <<>>, extra |-> <<>>]]] >>
  IN [set |-> Flat([i \in DOMAIN F |-> ForDef(F[i].d)]), extra |-> SelectSeq(nodes, LAMBDA n : ~Declared(n))]

\* obj with its attributes put in declaration order (the canonical form Restore returns)
RECURSIVE Canon(_, _)
Canon(tn, obj) ==
  LET t == Tab[tn]
      F == FirstDefs(t)
      ForDef(d) == LET hits == SelectSeq(obj.set, LAMBDA s : s.attr = d.attr) IN
        IF hits = <<>> \/ hits[1].elems = <<>> THEN <<>>
        ELSE << [attr |-> d.attr,
                 elems |-> [j \in DOMAIN hits[1].elems |->
                    LET e == hits[1].elems[j] IN
                    IF d.cont # "" THEN LET c == Canon(d.cont, [set |-> e.set, extra |-> e.extra]) IN [leaf |-> 0, set |-> c.set, extra |-> c.extra]
                    ELSE [leaf |-> e.leaf, set |-> <<>>, extra |-> <<>>]]] >>
  IN [set |-> Flat([i \in DOMAIN F |-> ForDef(F[i].d)]), extra |-> obj.extra]

\* the round trip of the design itself: on well-formed tables whose extras are undeclared, Restore inverts Gen
RoundTrip(tn, obj) == Restore(tn, Gen(tn, obj)) = Canon(tn, obj)

\* ------------------------------------------------------------ Expose (untyped commands)
\* node = [name : Seq(0..255), g : BOOLEAN, leaf, kids]
NormName(cs) == [i \in DOMAIN cs |-> IF cs[i] = 45 THEN 95 ELSE IF cs[i] \in 65..90 THEN cs[i] + 32 ELSE cs[i]]

RECURSIVE Expose(_)
Expose(nodes) ==
  LET names == [i \in DOMAIN nodes |-> NormName(nodes[i].name)]
      firsts == SelectSeq([i \in DOMAIN nodes |-> [i |-> i, first |-> \A j \in 1..(i-1) : names[j] # names[i]]], LAMBDA x : x.first)
      Val(n) == IF n.g THEN [leaf |-> 0, obj |-> Expose(n.kids)] ELSE [leaf |-> n.leaf, obj |-> <<>>]
  IN [k \in DOMAIN firsts |->
        LET nm == names[firsts[k].i]
            same == SelectSeq([i \in DOMAIN nodes |-> [n |-> nodes[i], hit |-> names[i] = nm]], LAMBDA x : x.hit)
        IN [name |-> nm, multi |-> Len(same) > 1, vals |-> [j \in DOMAIN same |-> Val(same[j].n)]]]
=============================================================================
