------------------------------ MODULE Mon_C11 ------------------------------
(* C11: a ready connection on which nothing has been received for longer than its idle        *)
(* timeout is sent exactly one DWR at the next timer check and awaits the DWA; a DWA returns   *)
(* it to ready; no DWA within the DWA timeout closes it with the watchdog-timeout reason; no   *)
(* DWR while traffic keeps arriving; per-peer timers override node defaults; a received DWR    *)
(* is answered 2001 in either ready sub-state.                                                 *)
(* Timer checks happen at least every wakeup seconds, so "at the next timer check" is judged   *)
(* with one wake-up period (+1 s) of slack; events sharing one virtual second are unordered.   *)
EXTENDS MonBase

R_DWATO == 53
Init == [i |-> 0, viol |-> {},
         rdy   |-> [c \in CIds |-> FALSE],    \* capabilities exchange succeeded, connection in service
         wait  |-> [c \in CIds |-> FALSE],    \* a DWR is outstanding
         dwrAt |-> [c \in CIds |-> 0],
         lastRx |-> [c \in CIds |-> 0],
         prevRx |-> [c \in CIds |-> 0],       \* lastRx before the current second's traffic
         peer  |-> [c \in CIds |-> ""],
         dir   |-> [c \in CIds |-> ""],
         cand  |-> [c \in CIds |-> ""],
         gone  |-> [c \in CIds |-> FALSE],
         stalled |-> [c \in CIds |-> FALSE]]   \* the peer has stopped reading: nothing the node sends can be observed any more

IsDwr(m) == m.cmd = "DW" /\ m.req
IsDwa(m) == m.cmd = "DW" /\ ~m.req

StepN(M, st) ==
  LET M0  == [M EXCEPT !.i = @ + 1]
      now == st.snap.t
      feed == IsFeed(st)
      c0  == IF feed THEN st.act.c ELSE 0
      ms  == IF feed THEN st.act.ms ELSE <<>>
      out == st.out
      idle(c) == Eff(M0.peer[c], "idle")
      dwaT(c) == Eff(M0.peer[c], "dwa")
      dwrs(c) == Len(SelectSeq(out, LAMBDA e : e.ev = "tx" /\ e.c = c /\ IsDwr(e.m)))
      closed(c) == IsClosed(st.snap, c)
      fedDwa == feed /\ \E j \in 1..Len(ms) : IsDwa(ms[j])
      \* in service for the whole step: ready before, not being fed a DPR / closed by the remote now
      inSvc(c) == M0.rdy[c] /\ ~M0.gone[c]
      \* ---- DWRs that were sent
      vSent == UNION {
         (IF dwrs(c) > 1 THEN {"more_than_one_dwr"} ELSE {}) \cup
         (IF dwrs(c) >= 1 /\ M0.wait[c] /\ ~(c = c0 /\ fedDwa) THEN {"dwr_while_awaiting_dwa"} ELSE {}) \cup
         \* (traffic in the very second of the DWR is unordered with it: then the traffic before that second counts)
         (IF dwrs(c) >= 1 /\ ~M0.wait[c] /\ now - (IF M0.lastRx[c] < now THEN M0.lastRx[c] ELSE M0.prevRx[c]) <= idle(c) THEN {"dwr_before_idle_timeout"} ELSE {}) \cup
         (IF dwrs(c) >= 1 /\ ~M0.rdy[c] THEN {"dwr_on_connection_not_ready"} ELSE {})
         : c \in CIds}
      \* ---- DWRs that should have been sent
      vMissing == {"dwr_not_sent_after_idle_timeout" : c \in {x \in CIds :
                     inSvc(x) /\ ~M0.wait[x] /\ ~closed(x) /\ dwrs(x) = 0 /\ ~((feed \/ IsRx(st)) /\ x = st.act.c) /\ ~M0.stalled[x] /\
                     CstOf(st.snap, x) \in READY /\ now >= M0.lastRx[x] + idle(x) + MCfg.node.wakeup + 1}}
      \* ---- DWA handling
      vDwa == IF feed /\ inSvc(c0) /\ M0.wait[c0] /\ fedDwa /\ ~closed(c0) /\ CstOf(st.snap, c0) = "WAITDWA" /\ dwrs(c0) = 0
              THEN {"dwa_did_not_restore_ready"} ELSE {}
      vWaitSt == {"awaiting_dwa_not_marked" : c \in {x \in CIds : inSvc(x) /\ dwrs(x) = 1 /\ ~closed(x) /\
                     CstOf(st.snap, x) = "READY" /\ ~(x = c0 /\ fedDwa)}}
      vTo == {"dwa_timeout_not_enforced" : c \in {x \in CIds : inSvc(x) /\ M0.wait[x] /\ ~closed(x) /\ ~(feed /\ x = c0) /\
                     CstOf(st.snap, x) \in READY /\ now >= M0.dwrAt[x] + dwaT(x) + MCfg.node.wakeup + 1}}
      vEarly == {"dwa_timeout_too_early" : c \in {x \in CIds : inSvc(x) /\ M0.wait[x] /\ closed(x) /\ M0.peer[x] \in MPeers /\
                     st.snap.peers[M0.peer[x]].reason = R_DWATO /\ now - M0.dwrAt[x] <= dwaT(x)}}
      \* (the disconnect reason is a per-peer attribute: judged only when the peer had no other connection at the time)
      others(x) == {y \in CIds \ {x} : M0.dir[y] # "" /\ ~M0.gone[y] /\ (M0.peer[y] = M0.peer[x] \/ M0.cand[y] = M0.peer[x])}
      vReason == {"dwa_timeout_wrong_reason" : c \in {x \in CIds : inSvc(x) /\ M0.wait[x] /\ closed(x) /\ st.act.a = "tick" /\ others(x) = {} /\
                     M0.peer[x] \in MPeers /\ st.snap.peers[M0.peer[x]].conn = 0 /\ st.snap.peers[M0.peer[x]].reason \notin {R_DWATO, 32} /\
                     now - M0.dwrAt[x] > dwaT(x)}}
      \* ---- received DWR answered 2001 in either ready sub-state
      vDwr == IF feed /\ inSvc(c0) /\ ~closed(c0) /\ ~M0.stalled[c0] /\ Len(ms) = 1 /\ IsDwr(ms[1]) /\ ms[1].oh # ""
                 /\ ~\E j \in 1..Len(out) : out[j].ev = "tx" /\ out[j].c = c0 /\ IsDwa(out[j].m) /\ out[j].m.rc = 2001 /\ Key(out[j].m) = Key(ms[1])
              THEN {"dwr_not_answered_2001"} ELSE {}
      \* ... with the node's Origin-State-Id (judged on the content digest of the transmitted answer)
      vDwaOsi == IF feed /\ inSvc(c0) /\ ~closed(c0) /\ Len(ms) = 1 /\ IsDwr(ms[1])
                 THEN {"dwa_without_node_origin_state_id" : j \in {k \in 1..Len(out) : out[k].ev = "tx" /\ out[k].c = c0 /\ IsDwa(out[k].m) /\
                          Key(out[k].m) = Key(ms[1]) /\ out[k].m.rc = 2001 /\ "x" \in DOMAIN out[k].m /\ out[k].m.x.osi # MCfg.node.osi}}
                 ELSE {}
      \* a connection whose peer neither reads nor sends: the watchdog request cannot be seen on the wire, but idle timeout +
      \* DWA timeout (each judged at a timer check) after the last received byte the connection must have been closed
      vStalled == {"silent_stalled_connection_not_closed" : c \in {x \in CIds :
                     inSvc(x) /\ M0.stalled[x] /\ ~closed(x) /\ ~((feed \/ IsRx(st)) /\ x = st.act.c) /\
                     now >= M0.lastRx[x] + idle(x) + dwaT(x) + 2 * (MCfg.node.wakeup + 1)}}
      sigs == vSent \cup vMissing \cup vDwa \cup vWaitSt \cup vTo \cup vEarly \cup vReason \cup vDwr \cup vDwaOsi \cup vStalled
      M1 == [M0 EXCEPT !.viol = @ \cup {[sig |-> s, at |-> M0.i] : s \in sigs}]
      \* ---- state update
      succIn(c) == \E j \in 1..Len(out) : out[j].ev = "tx" /\ out[j].c = c /\ out[j].m.cmd = "CE" /\ ~out[j].m.req /\ out[j].m.rc = 2001
      succOut(c) == feed /\ c = c0 /\ M0.dir[c] = "out" /\ \E j \in 1..Len(ms) : ms[j].cmd = "CE" /\ ~ms[j].req /\ ms[j].rc = 2001 /\ ms[j].oh # ""
      dprFed(c) == feed /\ c = c0 /\ \E j \in 1..Len(ms) : ms[j].cmd = "DP"
      cerHost == IF feed /\ \E j \in 1..Len(ms) : ms[j].cmd = "CE" /\ ms[j].req
                 THEN ms[CHOOSE j \in 1..Len(ms) : ms[j].cmd = "CE" /\ ms[j].req /\ \A k \in 1..(j - 1) : ~(ms[k].cmd = "CE" /\ ms[k].req)].oh ELSE ""
      M2 == [M1 EXCEPT
               !.cand = [c \in CIds |-> IF c = c0 /\ @[c] = "" /\ cerHost # "" THEN cerHost ELSE @[c]],
               !.prevRx = [c \in CIds |-> IF (feed \/ IsRx(st)) /\ c = st.act.c /\ M0.lastRx[c] < now THEN M0.lastRx[c] ELSE @[c]],
               !.lastRx = [c \in CIds |-> IF (feed \/ IsRx(st)) /\ c = st.act.c THEN now ELSE @[c]],
               \* a DWA received in the same second as a DWR is sent: unordered, take the node's own view
               !.wait = [c \in CIds |-> IF dwrs(c) >= 1 /\ c = c0 /\ fedDwa THEN CstOf(st.snap, c) = "WAITDWA"
                                        ELSE IF dwrs(c) >= 1 THEN TRUE ELSE IF c = c0 /\ fedDwa THEN FALSE ELSE @[c]],
               !.dwrAt = [c \in CIds |-> IF dwrs(c) >= 1 THEN now ELSE @[c]],
               !.stalled = [c \in CIds |-> @[c] \/ (st.act.a = "stall" /\ st.act.c = c)],
               !.gone = [c \in CIds |-> @[c] \/ closed(c) \/ dprFed(c) \/ (st.act.a \in {"peer_close", "peer_reset"} /\ st.act.c = c)]]
      M3 == [M2 EXCEPT !.rdy = [c \in CIds |-> @[c] \/ (M0.dir[c] = "in" /\ succIn(c)) \/ succOut(c)],
                       !.peer = [c \in CIds |-> IF M0.dir[c] = "in" /\ succIn(c) /\ @[c] = "" THEN M2.cand[c] ELSE @[c]]]
      OnOut(A, e) ==
        CASE e.ev = "accept" -> [A EXCEPT !.dir[e.c] = "in", !.lastRx[e.c] = now, !.prevRx[e.c] = now]
          [] e.ev = "dial"   -> [A EXCEPT !.dir[e.c] = "out", !.peer[e.c] = e.p, !.lastRx[e.c] = now, !.prevRx[e.c] = now]
          [] OTHER -> A
  IN FoldLeft(OnOut, M3, out)
Step(M, s0) == StepN(M, Norm(s0))
=============================================================================
