------------------------------ MODULE Mon_C18 ------------------------------
(* C18: stopping the node sends a DPR (cause REBOOTING) to every ready peer, closes each connection *)
(* once its DPA has arrived and its output is flushed (or when the wait timeout expires), closes     *)
(* connections that arrive meanwhile without serving them, sends no watchdogs and dials no peers     *)
(* while stopping; a forced stop skips the DPR exchange.  When stop returns every listening and peer *)
(* socket is closed and all node and connection worker threads terminate.                            *)
(* Trace vocabulary: act "stop" [force, wait]; observation "stop_done" [r, listen, nodeThreads]      *)
(* emitted when Node.stop() returns (r = "ok" or the exception it raised).                           *)
EXTENDS MonRoute

NoSnap == [t |-> 0, cst |-> <<>>, closed |-> <<>>, conns |-> <<>>, socks |-> <<>>]
Init == [i |-> 0, viol |-> {}, R |-> RInit, prev |-> NoSnap,
         phase |-> "run",             \* run | stopping | done
         force |-> FALSE, tStop |-> 0, until |-> 0, tDone |-> 0,
         await |-> {},                \* connections that were sent a DPR and have neither answered nor gone
         known |-> {},                \* every connection the node ever accepted or dialled
         late  |-> {},                \* connections accepted while stopping
         owed  |-> [c \in CIds |-> {}],
         stalled |-> {}]              \* connections whose peer has stopped reading: nothing sent to them can be observed any more   \* answers the node owes on c and has not transmitted yet (watchdog answers, accepted application answers)

\* slack between the moment nothing is left to wait for and stop() returning: I/O thread join (wakeup + 1) + statistics thread join (2)
Slack == MCfg.node.wakeup + 1 + 2 + 1

StepN(M, st) ==
  LET M0  == [M EXCEPT !.i = @ + 1]
      out == st.out
      sn  == st.snap
      now == sn.t
      a   == st.act
      stopNow == a.a = "stop" /\ M0.phase = "run"
      stopping == M0.phase = "stopping" \/ stopNow
      force == IF stopNow THEN a.force ELSE M0.force
      until == IF stopNow THEN now + (IF a.force THEN 0 ELSE a.wait) ELSE M0.until
      Ev(P(_)) == {j \in 1..Len(out) : P(out[j])}
      accepted == {out[j].c : j \in Ev(LAMBDA e : e.ev = "accept")}
      dialled  == {out[j].c : j \in Ev(LAMBDA e : e.ev = "dial")}
      closedNow == {out[j].c : j \in Ev(LAMBDA e : e.ev = "sock_close")}
      dprTo == {out[j].c : j \in Ev(LAMBDA e : e.ev = "tx" /\ e.m.cmd = "DP" /\ e.m.req)}
      \* ready when stop was called: the capabilities exchange succeeded, nothing ended it, and the node reports it ready
      \* (schedule scenarios: "also" names an environment event happening concurrently with the call)
      also == IF "also" \in DOMAIN a THEN {a.also.c} ELSE {}
      readyAtStop == ({c \in CIds : InService(M0.R, c) /\ CstOf(M0.prev, c) \in READY /\ ~IsClosed(M0.prev, c)} \ also) \ M0.stalled
      \* ---- clauses
      vDpr == IF stopNow /\ ~a.force /\ \E c \in readyAtStop : c \notin dprTo THEN {"dpr_not_sent_to_ready_peer"} ELSE {}
      vForce == IF stopping /\ force /\ dprTo # {} THEN {"dpr_sent_on_forced_stop"} ELSE {}
      vCause == IF stopping /\ \E j \in Ev(LAMBDA e : e.ev = "tx" /\ e.m.cmd = "DP" /\ e.m.req) : "dc" \in DOMAIN out[j].m /\ out[j].m.dc # 0
                THEN {"dpr_cause_not_rebooting"} ELSE {}
      vDw == IF (stopping \/ M0.phase = "done") /\ Ev(LAMBDA e : e.ev = "tx" /\ e.m.cmd = "DW" /\ e.m.req) # {}
             THEN {"watchdog_sent_while_stopping"} ELSE {}
      vDial == IF (M0.phase \in {"stopping", "done"}) /\ dialled # {} THEN {"dial_while_stopping"} ELSE {}
      lateNow == IF M0.phase = "stopping" THEN accepted ELSE {}
      late == M0.late \cup lateNow
      vLate == (IF \E c \in lateNow : c \notin closedNow THEN {"newcomer_not_closed"} ELSE {}) \cup
               (IF Ev(LAMBDA e : (e.ev \in {"tx", "dispatch", "app_req"}) /\ e.c \in late) # {} THEN {"newcomer_served"} ELSE {})
      \* a DPA arrives on a connection that was sent the DPR: closed in this very step (output is flushed at once at this grain)
      dpaOn == IF IsFeed(st) /\ \E j \in 1..Len(a.ms) : a.ms[j].cmd = "DP" /\ ~a.ms[j].req THEN {a.c} ELSE {}
      vDpa == IF M0.phase = "stopping" /\ ~force /\ \E c \in (dpaOn \cap M0.await) \ M0.stalled : ~IsClosed(sn, c) THEN {"not_closed_after_dpa"} ELSE {}
      \* ... and what the node owed the peer when the DPA arrived is transmitted first: answers to watchdog requests received
      \* in the same network read ahead of the DPA, and application answers accepted for that connection in this step
      chunk == IF IsFeed(st) THEN a.ms ELSE <<>>
      dpaAt == IF \E j \in 1..Len(chunk) : chunk[j].cmd = "DP" /\ ~chunk[j].req
               THEN CHOOSE j \in 1..Len(chunk) : chunk[j].cmd = "DP" /\ ~chunk[j].req /\ \A k \in 1..(j - 1) : ~(chunk[k].cmd = "DP" /\ ~chunk[k].req) ELSE 0
      before == {j \in 1..Len(chunk) : j < dpaAt /\ chunk[j].req}
      owed == {Key(chunk[j]) : j \in {k \in before : chunk[k].cmd = "DW" /\ chunk[k].oh # ""}} \cup
              {Key(out[j].m) : j \in Ev(LAMBDA e : e.ev = "submit" /\ e.r = "ok" /\ \E k \in before : Key(chunk[k]) = Key(e.m))}
      \* what is owed is remembered across steps (a peer that has stopped reading keeps it pending): a connection is not closed by the
      \* node with something still owed before the timeout, unless the peer itself closed / reset it
      sentOn(c) == {Key(out[j].m) : j \in Ev(LAMBDA e : e.ev = "tx" /\ e.c = c /\ ~e.m.req)}
      owedNew(c) == IF dpaAt # 0 /\ a.c = c /\ a.c \in M0.await THEN owed ELSE
                    IF IsFeed(st) /\ a.c = c /\ dpaAt = 0 /\ stopping /\ InService(M0.R, c)
                    THEN {Key(chunk[j]) : j \in {k \in 1..Len(chunk) : chunk[k].req /\ chunk[k].cmd = "DW" /\ chunk[k].oh # ""}} ELSE {}
      owed1 == [c \in CIds |-> (M0.owed[c] \cup owedNew(c)) \ sentOn(c)]
      faulted == IF a.a \in {"peer_close", "peer_reset", "send_error"} THEN {a.c} ELSE {}
      vFlush == IF M0.phase = "stopping" /\ ~force /\ now < until /\     \* (at the timeout everything is closed as it is)
                   \E c \in closedNow : c \in CIds /\ owed1[c] # {} /\ c \notin faulted /\ CstOf(M0.prev, c) \in {"DISCONNECTING", "CLOSING"} \cup READY
                THEN {"pending_output_not_flushed_before_close"} ELSE {}
      \* crossing DPRs: the peer's own DPR arriving on a connection that was sent the node's DPR is answered all the same
      dprFrom == IF IsFeed(st) /\ Len(a.ms) = 1 /\ a.ms[1].cmd = "DP" /\ a.ms[1].req /\ a.ms[1].oh # "" THEN {a.c} ELSE {}
      vCross == IF M0.phase = "stopping" /\ ~force /\ now < until /\ \E c \in (dprFrom \cap M0.await) \ M0.stalled :
                     ~IsClosed(M0.prev, c) /\ Ev(LAMBDA e : e.ev = "tx" /\ e.c = c /\ e.m.cmd = "DP" /\ ~e.m.req /\ Key(e.m) = Key(a.ms[1])) = {}
                THEN {"peer_dpr_not_answered_while_stopping"} ELSE {}
      \* a connection awaiting its DPA is not closed by the node before the timeout unless something happened on it
      touched == IF a.a \in {"feed", "rx", "peer_close", "peer_reset"} THEN {a.c} ELSE {}
      vEarly == IF M0.phase = "stopping" /\ ~force /\ now < until /\ \E c \in (M0.await \cap closedNow) : c \notin touched
                THEN {"closed_before_dpa_or_timeout"} ELSE {}
      await1 == ((M0.await \cup (IF stopping /\ ~force THEN dprTo ELSE {})) \ closedNow) \ (dpaOn \cup (IF a.a \in {"peer_close", "peer_reset"} THEN {a.c} ELSE {}))
      known == M0.known \cup accepted \cup dialled
      \* ---- stop() returns
      dj == Ev(LAMBDA e : e.ev = "stop_done")
      doneNow == dj # {}
      de == out[CHOOSE j \in dj : TRUE]
      vDone == IF ~doneNow THEN {}
               ELSE (IF de.r # "ok" THEN {"stop_raised"} ELSE {}) \cup
                    (IF de.listen # 0 THEN {"listening_socket_open_after_stop"} ELSE {}) \cup
                    (IF de.nodeThreads # 0 THEN {"node_threads_alive_after_stop"} ELSE {}) \cup
                    (IF (\E c \in known : ~IsClosed(sn, c)) \/ sn.socks # <<>> \/ sn.conns # <<>> THEN {"peer_socket_open_after_stop"} ELSE {})
      vLateDone == IF stopping /\ ~doneNow /\ now > until + Slack + 1 THEN {"stop_did_not_return_after_timeout"} ELSE {}
      \* connection worker threads: each polls its queue with a 5 s timeout
      vThreads == IF M0.phase = "done" /\ now >= M0.tDone + 6 /\ sn.tb[8] > 0 THEN {"worker_threads_alive_after_stop"} ELSE {}
      sigs == vDpr \cup vForce \cup vCause \cup vDw \cup vDial \cup vLate \cup vDpa \cup vFlush \cup vCross \cup vEarly \cup vDone \cup vLateDone \cup vThreads
  IN [M0 EXCEPT !.viol = @ \cup {[sig |-> s, at |-> M0.i] : s \in sigs},
                !.R = RUpdate(M0.R, st), !.prev = [t |-> sn.t, cst |-> sn.cst, closed |-> sn.closed, conns |-> sn.conns, socks |-> sn.socks],
                !.phase = IF doneNow THEN "done" ELSE IF stopNow THEN "stopping" ELSE @,
                !.force = force, !.tStop = IF stopNow THEN now ELSE @, !.until = until,
                !.tDone = IF doneNow THEN now ELSE @,
                !.await = await1, !.known = known, !.late = late,
                !.owed = [c \in CIds |-> IF c \in closedNow THEN {} ELSE owed1[c]],
                !.stalled = @ \cup (IF a.a = "stall" THEN {a.c} ELSE {})]
Step(M, s0) == StepN(M, Norm(s0))
=============================================================================
