------------------------------ MODULE MC_Node ------------------------------
(***************************************************************************)
(* Model checking instances: Node.tla at the atomic grain (every           *)
(* environment action followed by Quiesce) composed with the property      *)
(* monitors.  TLC explores every history over the action alphabet up to    *)
(* Depth actions / MaxTime seconds; a monitor violation is an invariant    *)
(* violation whose history (the lastAct fields of the counterexample) is   *)
(* then replayed on the real node.  The same module generates behaviours   *)
(* (-simulate) for spec -> code replay.                                    *)
(***************************************************************************)
EXTENDS NodeEnv

CONSTANTS Depth, MaxTime,
          Alpha,        \* message kinds the environment may send: subset of {"cer","cea","dwr","dwa","dpr","dpa","req","ans","ureq"}
          Pairs,        \* also feed two-message chunks
          Faults,       \* peer_close / peer_reset / connect failures
          Known         \* signatures of open findings (not counted as violations)

VARIABLES S, M, n, lastAct, hist
vars == <<S, M, n, lastAct, hist>>

SetSeq(s) == IF s = {} THEN <<>> ELSE LET RECURSIVE F(_) F(t) == IF t = {} THEN <<>> ELSE LET x == CHOOSE y \in t : TRUE IN <<x>> \o F(t \ {x}) IN F(s)
MCfgV == [node |-> NodeCfg, peerOrder |-> PeerOrder, peers |-> PeerCfg, appOrder |-> AppOrder,
          canon |-> IF "canon" \in DOMAIN P THEN P.canon ELSE <<>>,
          apps |-> [a \in Apps |-> [id |-> AppCfg[a].id, auth |-> AppCfg[a].auth, acct |-> AppCfg[a].acct,
                                    peers |-> SelectSeq(PeerOrder, LAMBDA p : p \in AppCfg[a].peers),
                                    realms |-> SetSeq(AppCfg[a].realms), kind |-> AppCfg[a].kind, handler |-> AppCfg[a].handler, max |-> AppCfg[a].max,
                                    late |-> IsLateApp(a)]]]
C06 == INSTANCE Mon_C06 WITH MCfg <- MCfgV
C07 == INSTANCE Mon_C07 WITH MCfg <- MCfgV
C11 == INSTANCE Mon_C11 WITH MCfg <- MCfgV
C12 == INSTANCE Mon_C12 WITH MCfg <- MCfgV
C13 == INSTANCE Mon_C13 WITH MCfg <- MCfgV
C08 == INSTANCE Mon_C08 WITH MCfg <- MCfgV
C09 == INSTANCE Mon_C09 WITH MCfg <- MCfgV
C17 == INSTANCE Mon_C17 WITH MCfg <- MCfgV
C10 == INSTANCE Mon_C10 WITH MCfg <- MCfgV
C19 == INSTANCE Mon_C19 WITH MCfg <- MCfgV
C18 == INSTANCE Mon_C18 WITH MCfg <- MCfgV
C14 == INSTANCE Mon_C14 WITH MCfg <- MCfgV

MonInit == [c06 |-> C06!Init, c07 |-> C07!Init, c11 |-> C11!Init, c12 |-> C12!Init, c13 |-> C13!Init,
            c08 |-> C08!Init, c09 |-> C09!Init, c17 |-> C17!Init, c10 |-> C10!Init, c19 |-> C19!Init, c18 |-> C18!Init, c14 |-> C14!Init]
MonStep(Mo, st) == [c06 |-> C06!Step(Mo.c06, st), c07 |-> C07!Step(Mo.c07, st), c11 |-> C11!Step(Mo.c11, st),
                    c12 |-> C12!Step(Mo.c12, st), c13 |-> C13!Step(Mo.c13, st),
                    c08 |-> C08!Step(Mo.c08, st), c09 |-> C09!Step(Mo.c09, st), c17 |-> C17!Step(Mo.c17, st),
                    c10 |-> C10!Step(Mo.c10, st), c19 |-> C19!Step(Mo.c19, st), c18 |-> C18!Step(Mo.c18, st), c14 |-> C14!Step(Mo.c14, st)]

\* ---------------------------------------------------------------- message alphabet
Hosts == Peers \cup {"x.r9"}
Mk(cmd, code, req, hbh, e2e, app, oh, realm, rc, T, typed, miss, auth, acct, relay) ==
  [cmd |-> cmd, code |-> code, req |-> req, hbh |-> hbh, e2e |-> e2e, app |-> app, oh |-> oh, realm |-> realm, rc |-> rc,
   T |-> T, typed |-> typed, miss |-> miss, auth |-> auth, acct |-> acct, relay |-> relay]
Ids == {<<1, 1>>, <<2, 2>>}
RegApp == IF Apps = {} THEN 4 ELSE AppCfg[AppOrder[1]].id

\* the identity a connection speaks as: its peer if it has one, any host otherwise
Speakers(c) == LET p == PeerOf(S, c) IN IF p # "" THEN {p} ELSE Hosts
OutstandingCer(c) == S.conn[c].dir = "out"
InFlight(c, hbh, e2e) == \E j \in 1..Len(S.held) : S.held[j].c = c /\ ~S.held[j].answered /\ S.held[j].m.hbh = hbh /\ S.held[j].m.e2e = e2e
Msgs(c) ==
  LET sp == Speakers(c) IN
  (IF "cer" \in Alpha /\ S.conn[c].dir = "in" /\ S.conn[c].st = "CONNECTED" /\ S.conn[c].nodeName = ""   \* at most one CER per connection
     THEN {Mk("CE", 257, TRUE, 1, 1, 0, h, "", 0, FALSE, TRUE, FALSE, aa[1], aa[2], FALSE)
             \* the registered id as authentication id, a foreign id, the registered id offered for accounting only
             : h \in Hosts, aa \in {<<<<RegApp>>, <<>>>>, <<<<77>>, <<>>>>, <<<<>>, <<RegApp>>>>}} ELSE {}) \cup
  (IF "cerup" \in Alpha /\ "canon" \in DOMAIN P /\ S.conn[c].dir = "in" /\ S.conn[c].st = "CONNECTED" /\ S.conn[c].nodeName = ""
     \* a CER whose Origin-Host spells a configured peer's name differently (upper case)
     THEN {Mk("CE", 257, TRUE, 7, 77, 0, k, "", 0, FALSE, TRUE, FALSE, <<RegApp>>, <<>>, FALSE) : k \in DOMAIN P.canon} ELSE {}) \cup
  (IF "cer2" \in Alpha /\ Len(AppOrder) > 1 /\ S.conn[c].dir = "in" /\ S.conn[c].st = "CONNECTED" /\ S.conn[c].nodeName = ""
     \* a CER offering the id of the second application only
     THEN {Mk("CE", 257, TRUE, 1, 1, 0, h, "", 0, FALSE, TRUE, FALSE, <<AppCfg[AppOrder[2]].id>>, <<>>, FALSE) : h \in Peers} ELSE {}) \cup
  (IF "cerout" \in Alpha /\ S.conn[c].dir = "out" /\ S.conn[c].st = "CONNECTED"        \* a CER where the node expects the CEA
     THEN {Mk("CE", 257, TRUE, 1, 1, 0, S.conn[c].nodeName, "", 0, FALSE, TRUE, FALSE, <<RegApp>>, <<>>, FALSE)} ELSE {}) \cup
  (IF "dwr2" \in Alpha /\ c = 2 THEN {Mk("DW", 280, TRUE, 1, 1, 0, h, "", 0, FALSE, TRUE, FALSE, <<>>, <<>>, FALSE) : h \in sp} ELSE {}) \cup   \* only connection 2 speaks
  (IF "dwr0" \in Alpha THEN {Mk("DW", 280, TRUE, 0, 0, 0, h, "", 0, FALSE, TRUE, FALSE, <<>>, <<>>, FALSE) : h \in sp} ELSE {}) \cup
  (IF "req0" \in Alpha /\ ~InFlight(c, 0, 0)
     THEN {Mk("APP", 272, TRUE, 0, 0, RegApp, h, NodeCfg.realm, 0, FALSE, TRUE, FALSE, <<>>, <<>>, FALSE) : h \in sp} ELSE {}) \cup
  (IF "ceaok" \in Alpha /\ S.conn[c].dir = "out" /\ S.conn[c].st = "CONNECTED"
     THEN {Mk("CE", 257, FALSE, S.conn[c].hbh, S.e2e, 0, S.conn[c].nodeName, "", 2001, FALSE, TRUE, FALSE, <<RegApp>>, <<>>, FALSE)} ELSE {}) \cup
  (IF "cerok" \in Alpha /\ S.conn[c].dir = "in" /\ S.conn[c].st = "CONNECTED" /\ S.conn[c].nodeName = ""
     THEN {Mk("CE", 257, TRUE, 1, 1, 0, PeerOrder[1], "", 0, FALSE, TRUE, FALSE, <<RegApp>>, <<>>, FALSE)} ELSE {}) \cup
  (IF "cea" \in Alpha /\ S.conn[c].dir = "out" /\ S.conn[c].st = "CONNECTED"
     THEN {Mk("CE", 257, FALSE, S.conn[c].hbh, S.e2e, 0, h, "", rc, FALSE, TRUE, FALSE, <<RegApp>>, <<>>, FALSE)
             : h \in {S.conn[c].nodeName, ""}, rc \in {2001, 3010}} ELSE {}) \cup
  (IF "dwr" \in Alpha THEN {Mk("DW", 280, TRUE, 1, 1, 0, h, "", 0, FALSE, TRUE, FALSE, <<>>, <<>>, FALSE) : h \in sp} ELSE {}) \cup
  (IF "dwa" \in Alpha THEN {Mk("DW", 280, FALSE, S.conn[c].hbh, S.e2e, 0, h, "", 2001, FALSE, TRUE, FALSE, <<>>, <<>>, FALSE) : h \in sp} ELSE {}) \cup
  (IF "dwae" \in Alpha THEN {Mk("DW", 280, FALSE, S.conn[c].hbh, S.e2e, 0, h, "", 3004, FALSE, TRUE, FALSE, <<>>, <<>>, FALSE) : h \in sp} ELSE {}) \cup   \* a DWA reporting an error
  (IF "dpr" \in Alpha THEN {Mk("DP", 282, TRUE, 2, 2, 0, h, "", 0, FALSE, TRUE, FALSE, <<>>, <<>>, FALSE) : h \in sp} ELSE {}) \cup
  (IF "dpa" \in Alpha THEN {Mk("DP", 282, FALSE, 2, 2, 0, h, "", 2001, FALSE, TRUE, FALSE, <<>>, <<>>, FALSE) : h \in sp} ELSE {}) \cup
  (IF "req" \in Alpha
     THEN {Mk("APP", 272, TRUE, id[1], id[2], ap, h, rl, 0, t, TRUE, FALSE, <<>>, <<>>, FALSE)
             : id \in Ids, ap \in {RegApp, 9}, h \in sp, rl \in {NodeCfg.realm, "r9"}, t \in {FALSE, TRUE}} ELSE {}) \cup
  (IF "req1" \in Alpha /\ ~InFlight(c, 1, 1)      \* identifiers of in-flight requests are unique per connection
     THEN {Mk("APP", 272, TRUE, 1, 1, RegApp, h, NodeCfg.realm, 0, FALSE, TRUE, FALSE, <<>>, <<>>, FALSE) : h \in sp} ELSE {}) \cup
  (IF "req1T" \in Alpha /\ ~InFlight(c, 1, 1)     \* req1 again, flagged as a possible retransmission
     THEN {Mk("APP", 272, TRUE, 1, 1, RegApp, h, NodeCfg.realm, 0, TRUE, TRUE, FALSE, <<>>, <<>>, FALSE) : h \in sp} ELSE {}) \cup
  (IF "req2" \in Alpha /\ ~InFlight(c, 1, 2)   \* the same hop-by-hop identifier as req1 with another end-to-end identifier
     THEN {Mk("APP", 272, TRUE, 1, 2, RegApp, h, NodeCfg.realm, 0, FALSE, TRUE, FALSE, <<>>, <<>>, FALSE) : h \in sp} ELSE {}) \cup
  (IF "reqf" \in Alpha    \* a request for a realm the node does not serve
     THEN {Mk("APP", 272, TRUE, 2, 2, RegApp, h, "r9", 0, FALSE, TRUE, FALSE, <<>>, <<>>, FALSE) : h \in sp} ELSE {}) \cup
  (IF "ans" \in Alpha THEN {Mk("APP", 272, FALSE, 1, 1, RegApp, h, "", 2001, FALSE, TRUE, FALSE, <<>>, <<>>, FALSE) : h \in sp \cup {""}} ELSE {}) \cup
  (IF "sans" \in Alpha     \* answers (also late and repeated ones) to the requests the node sent on this connection
     THEN {Mk("APP", 272, FALSE, S.snd[j].hbh, S.snd[j].e2e, AppCfg[S.snd[j].a].id, h, "", 2001, FALSE, TRUE, FALSE, <<>>, <<>>, FALSE)
             : j \in {x \in 1..Len(S.snd) : S.snd[x].c = c}, h \in sp} ELSE {}) \cup
  (IF "sdwa" \in Alpha    \* unsolicited watchdog answers bearing the identifiers of the requests the node sent on this connection
     THEN {Mk("DW", 280, FALSE, S.snd[j].hbh, S.snd[j].e2e, 0, h, "", 2001, FALSE, TRUE, FALSE, <<>>, <<>>, FALSE)
             : j \in {x \in 1..Len(S.snd) : S.snd[x].c = c}, h \in sp} ELSE {}) \cup
  (IF "ureq" \in Alpha THEN {Mk("APP", 9999, TRUE, 2, 1, RegApp, h, NodeCfg.realm, 0, FALSE, FALSE, FALSE, <<>>, <<>>, FALSE) : h \in sp} ELSE {})

Usable(c) == S.conn[c].used /\ S.conn[c].sock = "open" /\ ~S.conn[c].connecting /\ S.conn[c].st # "CONNECTING"
             /\ ~S.conn[c].remoteClosed /\ ~S.conn[c].recvErr
Whole(c) == Usable(c) /\ ~S.frag[c]      \* no half-delivered message pending on c
Acts ==
  (IF S.now < MaxTime THEN {[a |-> "tick"]} ELSE {}) \cup
  (IF "jump100" \in Alpha /\ S.now + 100 <= MaxTime THEN {[a |-> "jump", n |-> 100]} ELSE {}) \cup
  (IF S.nconn < MaxConn /\ S.listen = "open" THEN {[a |-> "connect"]} ELSE {}) \cup
  \* an application is registered while the node runs
  (IF "addapp" \in Alpha THEN {[a |-> "addapp", app |-> x] : x \in {y \in Apps : IsLateApp(y) /\ y \notin Reg(S)}} ELSE {}) \cup
  (IF "stop" \in Alpha /\ S.stop.phase = "none" THEN {[a |-> "stop", force |-> FALSE, wait |-> 2]} ELSE {}) \cup
  (IF "stopf" \in Alpha /\ S.stop.phase = "none" THEN {[a |-> "stop", force |-> TRUE, wait |-> 2]} ELSE {}) \cup
  UNION {{[a |-> "feed", c |-> c, ms |-> <<m>>] : m \in Msgs(c)} : c \in {x \in ConnIds : Whole(x)}} \cup
  (IF Pairs THEN UNION {{[a |-> "feed", c |-> c, ms |-> <<m1, m2>>] : m1 \in {x \in Msgs(c) : x.cmd = "CE"}, m2 \in {x \in Msgs(c) : x.cmd \in {"APP", "DW"} /\ x.req}}
                        : c \in {x \in ConnIds : Whole(x)}} ELSE {}) \cup
  \* a watchdog request and the answer to the node's DPR in one network read
  (IF "dwrdpa" \in Alpha
     THEN UNION {{[a |-> "feed", c |-> c, ms |-> <<m1, m2>>] : m1 \in {x \in Msgs(c) : x.cmd = "DW" /\ x.req}, m2 \in {x \in Msgs(c) : x.cmd = "DP" /\ ~x.req}}
                 : c \in {x \in ConnIds : Whole(x) /\ S.conn[x].st = "DISCONNECTING"}} ELSE {}) \cup
  (IF Faults THEN UNION {{[a |-> "peer_close", c |-> c], [a |-> "peer_reset", c |-> c]} : c \in {x \in ConnIds : Usable(x)}} ELSE {}) \cup
  (IF "stall" \in Alpha THEN {[a |-> "stall", c |-> c] : c \in {x \in ConnIds : Usable(x) /\ ~S.conn[x].stalled}} ELSE {}) \cup
  \* two connections hit at the same instant: both deliver undecodable bytes / both are closed by their peers
  (IF "garbage2" \in Alpha THEN {[a |-> "multi", acts |-> <<[a |-> "garbage", c |-> p[1]], [a |-> "garbage", c |-> p[2]]>>]
                                   : p \in {q \in ConnIds \X ConnIds : q[1] < q[2] /\ Whole(q[1]) /\ Whole(q[2])}} ELSE {}) \cup
  (IF "close2" \in Alpha THEN {[a |-> "multi", acts |-> <<[a |-> "peer_close", c |-> p[1]], [a |-> "peer_close", c |-> p[2]]>>]
                                 : p \in {q \in ConnIds \X ConnIds : q[1] < q[2] /\ Usable(q[1]) /\ Usable(q[2])}} ELSE {}) \cup
  (IF "senderr" \in Alpha THEN {[a |-> "send_error", c |-> c] : c \in {x \in ConnIds : Usable(x) /\ ~S.conn[x].sendErr}} ELSE {}) \cup
  (IF "garbage" \in Alpha THEN {[a |-> "garbage", c |-> c] : c \in {x \in ConnIds : Whole(x)}} ELSE {}) \cup
  \* a watchdog request delivered in two network reads (first half, then the rest)
  (IF "frag" \in Alpha
     THEN UNION {{[a |-> "frag", c |-> c, i |-> IF S.frag[c] THEN 2 ELSE 1, n |-> 2,
                   m |-> Mk("DW", 280, TRUE, 3, 3, 0, h, "", 0, FALSE, TRUE, FALSE, <<>>, <<>>, FALSE)] : h \in {PeerOrder[1]}}
                 : c \in {x \in ConnIds : Usable(x)}} ELSE {}) \cup
  (IF "sendf" \in Alpha /\ Len(S.snd) < 1    \* an application tries to send to a foreign realm
     THEN {[a |-> "send", k |-> Len(S.snd) + 1, app |-> ap, realm |-> "r9", timeout |-> 1, pick |-> "first"] : ap \in Apps} ELSE {}) \cup
  (IF "send1" \in Alpha /\ Len(S.snd) < 2    \* one variant: own realm, timeout 1
     THEN {[a |-> "send", k |-> Len(S.snd) + 1, app |-> ap, realm |-> NodeCfg.realm, timeout |-> 1, pick |-> "first"] : ap \in Apps} ELSE {}) \cup
  (IF "sendd" \in Alpha /\ Len(S.snd) < 3    \* the library's default selection callback decides (least Peer.counters.requests)
     THEN {[a |-> "send", k |-> Len(S.snd) + 1, app |-> ap, realm |-> NodeCfg.realm, timeout |-> 1, pick |-> "default"] : ap \in Apps} ELSE {}) \cup
  (IF "sendh" \in Alpha /\ Len(S.snd) < 2   \* the request names a Destination-Host: any configured peer, eligible for the application or not
     THEN {[a |-> "send", k |-> Len(S.snd) + 1, app |-> ap, realm |-> NodeCfg.realm, timeout |-> 1, pick |-> "first", dhost |-> h] : ap \in Apps, h \in Peers} ELSE {}) \cup
  (IF "send" \in Alpha /\ Len(S.snd) < 2
     THEN {[a |-> "send", k |-> Len(S.snd) + 1, app |-> ap, realm |-> rl, timeout |-> to, pick |-> pk]
             : ap \in Apps, rl \in {NodeCfg.realm, "r9"}, to \in {1, 30}, pk \in {"first", "last"}} ELSE {}) \cup
  \* an application answers a request it holds (or, with "resub", answers one a second time)
  {[a |-> "submit", app |-> S.held[j].a, c0 |-> S.held[j].c,
    m |-> Mk("APP", S.held[j].m.code, FALSE, S.held[j].m.hbh, S.held[j].m.e2e, S.held[j].m.app,
             IF S.held[j].m.typed THEN NodeCfg.host ELSE "", "", IF S.held[j].m.typed THEN rc ELSE 0, FALSE, S.held[j].m.typed, FALSE, <<>>, <<>>, FALSE)]
     \* ("sube": the application may also answer with a protocol error - result 3004, E bit on the wire)
     : j \in {k \in 1..Len(S.held) : ~S.held[k].answered \/ "resub" \in Alpha}, rc \in (IF "sube" \in Alpha THEN {2001, 3004} ELSE {2001})} \cup
  UNION {{[a |-> "connect_result", c |-> c, err |-> e] : e \in (IF Faults THEN {0, 111} ELSE {0})}
         : c \in {x \in ConnIds : S.conn[x].used /\ S.conn[x].connecting /\ S.conn[x].sock = "open"}}

StartAct == [a |-> "start"]
\* optional fixed prefix of actions (from the instance parameters) applied before exploration starts
PrefixActs == IF "prefix" \in DOMAIN P THEN P.prefix ELSE <<>>
RECURSIVE RunPrefix(_, _, _)
RunPrefix(St, Mo, acts) == IF acts = <<>> THEN [S |-> St, M |-> Mo]
                           ELSE LET S1 == StepOf(St, Head(acts)) IN RunPrefix(S1, MonStep(Mo, TraceStep(S1, Head(acts))), Tail(acts))
Init == LET S1 == StepOf(InitState, StartAct)
            R  == RunPrefix(S1, MonStep(MonInit, TraceStep(S1, StartAct)), PrefixActs)
        IN /\ S = R.S /\ n = 0 /\ lastAct = StartAct /\ hist = <<StartAct>> \o PrefixActs
           /\ M = R.M
Next == /\ n < Depth
        /\ \E act \in Acts :
             LET S1 == StepOf(S, act) IN
             /\ S' = S1 /\ lastAct' = act /\ n' = n + 1 /\ hist' = Append(hist, act)
             /\ M' = MonStep(M, TraceStep(S1, act))
Spec == Init /\ [][Next]_vars
\* behaviour generation (-simulate): one random action per step, monitors not evaluated
SimNext == /\ n < Depth /\ Acts # {}
           /\ \E act \in {RandomElement(Acts)} :      \* (bound once: a LET would draw again at every use)
                /\ S' = StepOf(S, act) /\ lastAct' = act /\ n' = n + 1 /\ M' = M /\ hist' = hist
SimSpec == Init /\ [][SimNext]_vars

\* ---------------------------------------------------------------- the free grain: every interleaving of thread steps
\* Environment actions and single thread steps alternate freely (no priority, no quiescence in between).  Checked with
\* state invariants and with the monitors whose clauses do not depend on step boundaries (Inv07).
FreeActs == Acts \cup {[a |-> "step", th |-> st.th, c |-> st.c] : st \in Steps(S)}
\* (the exploration starts after `start` and an optional prefix of actions, both executed at the atomic grain)
FreeInit == LET S1 == StepOf(InitState, StartAct)
                R  == RunPrefix(S1, MonStep(MonInit, TraceStep(S1, StartAct)), PrefixActs)
            IN /\ S = R.S /\ n = 0 /\ lastAct = StartAct /\ hist = <<StartAct>> \o PrefixActs /\ M = R.M
FreeNext == /\ n < Depth
            /\ \E act \in FreeActs :
                 LET S1 == FreeStepOf(S, act) IN
                 /\ S' = S1 /\ lastAct' = act /\ n' = n + 1 /\ hist' = Append(hist, act)
                 /\ M' = MonStep(M, TraceStep(S1, act))
FreeSpec == FreeInit /\ [][FreeNext]_vars
FreeSimNext == /\ n < Depth /\ FreeActs # {}
               /\ \E act \in {RandomElement(FreeActs)} :
                    /\ S' = FreeStepOf(S, act) /\ lastAct' = act /\ n' = n + 1 /\ M' = M /\ hist' = hist
FreeSimSpec == FreeInit /\ [][FreeSimNext]_vars
\* ---------------------------------------------------------------- liveness of the shutdown (free grain, weakly fair)
\* stop() is called at the end of the prefix.  From then on the environment lets time pass, may lose connections and may
\* answer the node's DPR; the node's threads (stopping thread, I/O loop, readers, writers, statistics, application
\* consumers) interleave freely, one step at a time.  Under weak fairness of the step relation - a thread that can run
\* does run, time passes when nothing else can happen - stop() returns (C18: "when stop returns ..." presupposes it does),
\* and it returns with every connection socket closed and the I/O thread ended.  No depth bound and no history
\* variables here (n, hist, lastAct, M stay constant): a state constraint would hide non-progress cycles.
\* Used by C18 (configurations A, HOLD2, T1; thorough TS2): TLC exhausts the graph (1.5 k - 50 k states) and checks
\* StopReturns and ClosedWhenStopped; with MaxTime too small for the wait loop StopReturns must be violated (guard).
\* History: without the timing assumption below TLC produced a genuine counterexample of the model - seconds pass while the
\* I/O thread is never scheduled, the stopping thread's bounded join gives up and stop() returns with the I/O thread alive;
\* and an environment that may feed a DPA again before the reader has handled the first made the graph infinite.
LiveEnv ==
  \* (timing assumption: a second passes only when no thread of the node can run - threads are not starved for seconds;
  \*  without it the stopping thread's bounded joins may give up on a thread that was simply never scheduled)
  (IF S.now < MaxTime /\ Steps(S) = {} THEN {[a |-> "tick"]} ELSE {}) \cup
  (IF Faults THEN {[a |-> "peer_close", c |-> c] : c \in {x \in ConnIds : Usable(x)}} ELSE {}) \cup
  (IF "dpa" \in Alpha
     THEN {[a |-> "feed", c |-> c, ms |-> <<Mk("DP", 282, FALSE, 1, 1, 0, PeerOrder[1], "", 2001, FALSE, TRUE, FALSE, <<>>, <<>>, FALSE)>>]
             : c \in {x \in ConnIds : Whole(x) /\ S.conn[x].st = "DISCONNECTING" /\ S.conn[x].netIn = <<>> /\ S.conn[x].readQ = <<>>}}   \* (one DPA per connection)
     ELSE {})
LiveActs == LiveEnv \cup {[a |-> "step", th |-> st.th, c |-> st.c] : st \in Steps(S)}
LiveInit == LET S1 == StepOf(InitState, StartAct)
                R  == RunPrefix(S1, MonInit, PrefixActs)
            IN /\ S = [Apply(R.S, [a |-> "stop", force |-> FALSE, wait |-> 2]) EXCEPT !.out = <<>>]
               /\ n = 0 /\ lastAct = StartAct /\ hist = <<>> /\ M = MonInit
LiveNext == /\ \E act \in LiveActs : S' = [FreeStepOf(S, act) EXCEPT !.out = <<>>]
            /\ UNCHANGED <<n, lastAct, hist, M>>
LiveSpec == LiveInit /\ [][LiveNext]_vars /\ WF_vars(LiveNext)
StopReturns == <>(S.stop.phase = "done")
ClosedWhenStopped == S.stop.phase = "done" =>
  /\ S.io.done
  /\ \A c \in ConnIds : S.conn[c].used => S.conn[c].sock = "closed"
  /\ S.connections = <<>>

\* nothing the node accepted for a connection is dropped by a clean close (pinned F18c violates this under some interleaving)
NoOutputLost == S.overflow \/ S.lostOut = 0
\* the connection tables agree with each other after every thread step
TablesConsistent == S.overflow \/
  /\ \A i \in 1..Len(S.peerSockets) : InSeq(S.peerSockets[i], S.connections) /\ S.conn[S.peerSockets[i]].sock = "open"
  /\ \A i \in 1..Len(S.connections) : S.conn[S.connections[i]].used /\ S.conn[S.connections[i]].added
  /\ \A p \in Peers : S.peer[p].conn # 0 => InSeq(S.peer[p].conn, S.connections)
  /\ \A c \in S.halfReady : InSeq(c, S.connections)

\* whenever nothing is in progress (no connection, no held request, no sender waiting, queues empty) the connection tables,
\* the per-transaction tables of inbound requests and the sockets are all released - after every thread step
IdleClean == S.overflow \/ ~Idle(S) \/
  LET r == Retained(S) IN
  r.connections = 0 /\ r.peerSockets = 0 /\ r.socketPeers = 0 /\ r.halfReady = 0 /\ r.peerWait = 0 /\ r.originWait = 0 /\ r.openSockets = 0

View == <<[S EXCEPT !.out = <<>>], M, n>>
\* enumeration of every history of a small instance (spec -> code, exhaustive): histories are states, monitors idle
EnumNext == /\ n < Depth
            /\ \E act \in Acts :
                 /\ S' = StepOf(S, act) /\ lastAct' = act /\ n' = n + 1 /\ hist' = Append(hist, act) /\ M' = M
EnumSpec == Init /\ [][EnumNext]_vars
ViewH == <<n, hist>>
PrintHist == (n = Depth \/ Acts = {}) => PrintT(<<"HIST", hist>>)
Sigs(vs) == {v.sig : v \in vs}
Inv06 == S.overflow \/ Sigs(M.c06.viol) \subseteq Known
Inv07 == S.overflow \/ Sigs(M.c07.viol) \subseteq Known
Inv11 == S.overflow \/ Sigs(M.c11.viol) \subseteq Known
Inv12 == S.overflow \/ Sigs(M.c12.viol) \subseteq Known
Inv13 == S.overflow \/ Sigs(M.c13.viol) \subseteq Known
Inv08 == S.overflow \/ Sigs(M.c08.viol) \subseteq Known
Inv09 == S.overflow \/ Sigs(M.c09.viol) \subseteq Known
Inv17 == S.overflow \/ Sigs(M.c17.viol) \subseteq Known
Inv10 == S.overflow \/ Sigs(M.c10.viol) \subseteq Known
Inv19 == S.overflow \/ Sigs(M.c19.viol) \subseteq Known
Inv18 == S.overflow \/ Sigs(M.c18.viol) \subseteq Known
Inv14 == S.overflow \/ Sigs(M.c14.viol) \subseteq Known
\* C14 on the model's own state: the application's consumer threads are alive, and once nothing is in flight
\* every thread slot has been given back
TIdle(a) == S.tapp[a].recvQ = <<>> /\ S.tapp[a].respQ = <<>> /\ S.tapp[a].recv.st = "get" /\ \A i \in 1..Len(S.tapp[a].procs) : S.tapp[a].procs[i].st = "done"
Serviceable == S.overflow \/ S.stop.phase # "none" \/ \A a \in TApps : /\ S.tapp[a].recv.alive /\ S.tapp[a].resp.alive
                                                 /\ (TIdle(a) => S.tapp[a].slots = 0)
\* the atomic step always reaches quiescence within the bound of Quiesce
Quiescent == ~AnyEnabled(S)
NoOverflow == ~S.overflow

=============================================================================
