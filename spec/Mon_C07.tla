------------------------------ MODULE Mon_C07 ------------------------------
(* C07: every answer the node transmits answers exactly one request previously received on   *)
(* that same connection and not yet answered (same command code, application id, hop-by-hop   *)
(* and end-to-end identifiers, R cleared); never two answers for one request, never an answer *)
(* in reaction to a received answer.                                                          *)
EXTENDS MonBase

Init == [i |-> 0, viol |-> {},
         pend |-> [c \in CIds |-> <<>>],          \* requests received on c and not yet answered (multiset)
         last |-> [c \in CIds |-> "none"]]        \* kind of the last message received on c

FeedMsg(M, c, m) == IF m.req THEN [M EXCEPT !.pend[c] = Append(@, Key(m)), !.last[c] = "req"]
                    ELSE [M EXCEPT !.last[c] = "ans"]
OnOut(M, e) ==
  IF e.ev = "tx" /\ ~e.m.req
  THEN IF Has(M.pend[e.c], Key(e.m)) THEN [M EXCEPT !.pend[e.c] = RemoveFirst(@, Key(e.m))]
       ELSE V(M, IF M.last[e.c] = "ans" THEN "answer_without_request:after_received_answer"
                 ELSE "answer_without_request:no_matching_request")
  ELSE M
StepN(M, st) ==
  LET M0 == [M EXCEPT !.i = @ + 1]
      M1 == IF IsFeed(st) THEN FoldLeft(LAMBDA acc, m : FeedMsg(acc, st.act.c, m), M0, st.act.ms) ELSE M0
  IN FoldLeft(OnOut, M1, st.out)
Step(M, s0) == StepN(M, Norm(s0))
=============================================================================
