----------------------------- MODULE MC_Framing -----------------------------
(* Exhaustive instance: every sequence of 1..MaxFrames frames of every kind and size, every chunking. *)
EXTENDS Framing

CONSTANTS MaxFrames, Sizes

FrameChoices ==
    {[kind |-> "good",  declared |-> r, real |-> r] : r \in Sizes} \cup
    {[kind |-> "undec", declared |-> r, real |-> r] : r \in Sizes} \cup
    {[kind |-> "len0",  declared |-> 0, real |-> r] : r \in Sizes} \cup
    {[kind |-> "lenTiny", declared |-> d, real |-> r] : r \in Sizes, d \in 1..(H - 1)} \cup
    {fr \in {[kind |-> "lenShort", declared |-> d, real |-> r] : r \in Sizes, d \in H..MaxLen} : fr.declared < fr.real} \cup
    {fr \in {[kind |-> "lenLong", declared |-> d, real |-> r] : r \in Sizes, d \in H..MaxLen} : fr.declared > fr.real}

FrameSeqs == UNION {[1..n -> FrameChoices] : n \in 1..MaxFrames}

MCInit == \E fr \in FrameSeqs :
            \E cuts \in SUBSET (1..(Len(StreamOf(fr, 1)) - 1)) : InitWith(fr, cuts)
MCSpec == MCInit /\ [][Next]_vars
MCFair == MCSpec /\ WF_vars(Next)
=============================================================================
