------------------------------ MODULE MonRoute ------------------------------
(* Statement-level routing vocabulary shared by Mon_C08 / Mon_C09 / Mon_C17: which connections *)
(* are in service, which application a request matches, which error results are applicable.   *)
EXTENDS MonBase

\* realms an application is registered for, with the peers configured for it in that realm
RoutePeers(a, r) == {MCfg.apps[a].peers[j] : j \in {k \in 1..Len(MCfg.apps[a].peers) :
                        MCfg.peers[MCfg.apps[a].peers[k]].realm = r \/ \E i \in 1..Len(MCfg.apps[a].realms) : MCfg.apps[a].realms[i] = r}}
Served == {MCfg.node.realm} \cup {MCfg.peers[p].realm : p \in {q \in MPeers : MCfg.peers[q].default}} \cup
          UNION {{MCfg.peers[MCfg.apps[a].peers[j]].realm : j \in 1..Len(MCfg.apps[a].peers)} \cup
                 (IF Len(MCfg.apps[a].peers) = 0 THEN {} ELSE ToSet(MCfg.apps[a].realms)) : a \in MApps}
Matching(m, p) == {a \in MApps : MCfg.apps[a].id = m.app /\ p \in RoutePeers(a, m.realm)}
Missing(m) == m.typed /\ (m.miss \/ m.oh = "" \/ m.realm = "")
\* result codes the statement allows for a request from peer p that is not delivered
Applicable(m, p) == (IF Missing(m) /\ MCfg.node.validate THEN {5005} ELSE {}) \cup
                    (IF m.realm = "" THEN {3003, 3007, 5012} ELSE {}) \cup
                    (IF m.realm # "" /\ m.realm \notin Served THEN {3003} ELSE {}) \cup
                    (IF m.realm # "" /\ m.realm \in Served /\ Matching(m, p) = {} THEN {3007} ELSE {})     \* (an unserved realm is 3003, not 3007)

\* connection bookkeeping common to the routing monitors
RInit == [dir  |-> [c \in CIds |-> ""], rdy |-> [c \in CIds |-> FALSE], gone |-> [c \in CIds |-> FALSE],
          peer |-> [c \in CIds |-> ""], cand |-> [c \in CIds |-> ""]]
RUpdate(R, st) ==
  LET feed == IsFeed(st)
      c0 == IF feed THEN st.act.c ELSE 0
      ms == IF feed THEN st.act.ms ELSE <<>>
      out == st.out
      OnOut(A, e) == CASE e.ev = "accept" -> [A EXCEPT !.dir[e.c] = "in"]
                       [] e.ev = "dial" -> [A EXCEPT !.dir[e.c] = "out", !.peer[e.c] = e.p]
                       [] e.ev = "sock_close" -> [A EXCEPT !.gone[e.c] = TRUE]
                       [] OTHER -> A
      R1 == FoldLeft(OnOut, R, out)
      succIn(c) == \E j \in 1..Len(out) : out[j].ev = "tx" /\ out[j].c = c /\ out[j].m.cmd = "CE" /\ ~out[j].m.req /\ out[j].m.rc = 2001
      succOut(c) == feed /\ c = c0 /\ R1.dir[c] = "out" /\ \E j \in 1..Len(ms) : ms[j].cmd = "CE" /\ ~ms[j].req /\ ms[j].rc = 2001 /\ ms[j].oh # ""
      cerHost == IF feed /\ \E j \in 1..Len(ms) : ms[j].cmd = "CE" /\ ms[j].req
                 THEN ms[CHOOSE j \in 1..Len(ms) : ms[j].cmd = "CE" /\ ms[j].req /\ \A k \in 1..(j - 1) : ~(ms[k].cmd = "CE" /\ ms[k].req)].oh ELSE ""
      R2 == [R1 EXCEPT !.cand = [c \in CIds |-> IF c = c0 /\ @[c] = "" /\ cerHost # "" THEN cerHost ELSE @[c]],
                       \* (a DPR / DPA ends service only on a connection through its capabilities exchange: before that it is ignored)
                       !.gone = [c \in CIds |-> @[c] \/ IsClosed(st.snap, c)
                                               \/ (feed /\ c = c0 /\ \E j \in 1..Len(ms) : ms[j].cmd = "DP" /\ (R.rdy[c] \/ \E k \in 1..(j - 1) : ms[k].cmd = "CE"))
                                               \/ (st.act.a \in {"peer_close", "peer_reset"} /\ st.act.c = c)]]
  IN [R2 EXCEPT !.rdy = [c \in CIds |-> @[c] \/ (R1.dir[c] = "in" /\ succIn(c)) \/ succOut(c)],
                !.peer = [c \in CIds |-> IF R1.dir[c] = "in" /\ succIn(c) /\ @[c] = "" THEN R2.cand[c] ELSE @[c]]]
InService(R, c) == c \in CIds /\ R.rdy[c] /\ ~R.gone[c]
=============================================================================
