----------------------------- MODULE Trace_C16 -----------------------------
(***************************************************************************)
(* Code -> spec: executions of the real next_sequence()/next_id() recorded *)
(* at source-line grain are validated against SeqGen.  Logged events are   *)
(* the lines chk / wrap / inc / ret (with the value returned); lock        *)
(* acquisition and release, and the loop head, are silent steps that TLC   *)
(* infers.  Many traces per TLC run: tid selects the trace.                *)
(***************************************************************************)
EXTENDS SeqGen, Json, IOUtils, TLCExt

Traces == JsonDeserialize(IOEnv.TRACES)      \* sequence of [start, ev: sequence of [c, lab, val]]
NT == Len(Traces)

VARIABLES tid, l

CallerOf(i) == CHOOSE c \in Callers : ToString(c) = "c" \o ToString(i)

tvars == <<vars, tid, l>>

TInit == /\ Init
         /\ tid \in 1..NT
         /\ l = 1
         /\ seq = Traces[tid].start

Silent == {"loop", "acq", "rel"}

TLogged == /\ l <= Len(Traces[tid].ev)
           /\ LET e == Traces[tid].ev[l]
                  c == CallerOf(e.c)
              IN /\ pc[c] = e.lab
                 /\ C(c)
                 /\ (e.lab = "ret" => seq = e.val)
           /\ l' = l + 1
           /\ UNCHANGED tid

TSilent == /\ \E c \in Callers : pc[c] \in Silent /\ C(c)
           /\ UNCHANGED <<tid, l>>

TNext == TLogged \/ TSilent
TSpec == TInit /\ [][TNext]_tvars

\* register 1: longest matched prefix per trace
ASSUME TLCSet(1, [i \in 1..NT |-> 0])
Record == TLCSet(1, [TLCGet(1) EXCEPT ![tid] = IF @ < l THEN l ELSE @])
Accepted == \A i \in 1..NT :
              \/ TLCGet(1)[i] = Len(Traces[i].ev) + 1
              \/ PrintT(<<"REJECT", i, TLCGet(1)[i]>>)
=============================================================================
