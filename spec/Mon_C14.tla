------------------------------ MODULE Mon_C14 ------------------------------
(* C14: whatever happened to earlier transactions (connections lost at any point, handlers raising, *)
(* returning nothing, answers that can no longer be routed), no node, connection or application      *)
(* worker thread terminates abnormally and no processing capacity is consumed for good: a peer that  *)
(* connects afterwards completes its capabilities exchange and has its requests delivered to the     *)
(* handler and answered exactly as on a fresh node.                                                  *)
(* Trace vocabulary: observation "thread_exit" [th, exc] = a thread ended with an exception; actions *)
(* carrying probe = "cer" | "req" | "end" form the reconnect-and-serve probe (after every earlier    *)
(* connection has been closed and the node was left alone long enough for work in flight to end).    *)
EXTENDS MonRoute

Init == [i |-> 0, viol |-> {}, R |-> RInit,
         exp |-> <<>>,          \* answers the probe still expects: [c, key, rc, due]
         n   |-> [a \in MApps |-> 0]]   \* handler invocations per application so far

\* what a fresh node does with a valid request for a registered application, by handler kind
Handler(a) == MCfg.apps[a].handler
\* (k = number of handler invocations of the application before this request; the "alt" handler answers every second one)
ExpectRc(a, k) == CASE Handler(a) = "answer" -> 2001 [] Handler(a) = "slow" -> 2001 [] Handler(a) = "raise" -> 5012
                    [] Handler(a) = "alt" -> (IF (k + 1) % 2 = 0 THEN 2001 ELSE 0) [] OTHER -> 0
Delay(a) == IF Handler(a) = "slow" THEN 3 ELSE 0

StepN(M, st) ==
  LET M0  == [M EXCEPT !.i = @ + 1]
      out == st.out
      now == st.snap.t
      a   == st.act
      Ev(P(_)) == {j \in 1..Len(out) : P(out[j])}
      probe == IF "probe" \in DOMAIN a THEN a.probe ELSE ""
      vExit == IF Ev(LAMBDA e : e.ev = "thread_exit") # {} THEN {"thread_terminated_abnormally"} ELSE {}
      \* ---- probe: capabilities exchange
      vCer == IF probe = "cer" /\ Ev(LAMBDA e : e.ev = "tx" /\ e.c = a.c /\ e.m.cmd = "CE" /\ ~e.m.req /\ e.m.rc = 2001) = {}
              THEN {"probe_capabilities_exchange_failed"} ELSE {}
      \* ---- probe: one request, alone in its network read, for the application registered for this peer
      m   == a.ms[1]
      p   == M0.R.peer[a.c]
      apps == IF probe = "req" THEN Matching(m, IF p = "" THEN M0.R.cand[a.c] ELSE p) ELSE {}
      app == CHOOSE x \in apps : TRUE
      vDeliv == IF probe = "req" /\ apps # {} /\ Ev(LAMBDA e : e.ev = "app_req" /\ Key(e.m) = Key(m)) = {}
                THEN {"probe_request_not_delivered_to_handler"} ELSE {}
      expNew == IF probe = "req" /\ apps # {} /\ ExpectRc(app, M0.n[app]) # 0
                THEN <<[c |-> a.c, key |-> Key(m), rc |-> ExpectRc(app, M0.n[app]), due |-> now + Delay(app)]>> ELSE <<>>
      n1 == [x \in MApps |-> M0.n[x] + Cardinality(Ev(LAMBDA e : e.ev = "app_req" /\ e.a = x))]
      \* answers transmitted now settle expectations (with the expected result), or are wrong
      exp1 == M0.exp \o expNew
      answered(x) == Ev(LAMBDA e : e.ev = "tx" /\ e.c = x.c /\ ~e.m.req /\ Key(e.m) = x.key) # {}
      right(x) == Ev(LAMBDA e : e.ev = "tx" /\ e.c = x.c /\ ~e.m.req /\ Key(e.m) = x.key /\ e.m.rc = x.rc) # {}
      vWrong == IF \E k \in 1..Len(exp1) : answered(exp1[k]) /\ ~right(exp1[k]) THEN {"probe_request_answered_differently_from_fresh_node"} ELSE {}
      exp2 == SelectSeq(exp1, LAMBDA x : ~answered(x))
      vLate == IF \E k \in 1..Len(exp2) : now > exp2[k].due \/ (probe = "end") THEN {"probe_request_not_answered"} ELSE {}
      exp3 == SelectSeq(exp2, LAMBDA x : now <= x.due /\ probe # "end")
      sigs == vExit \cup vCer \cup vDeliv \cup vWrong \cup vLate
  IN [M0 EXCEPT !.viol = @ \cup {[sig |-> s, at |-> M0.i] : s \in sigs}, !.R = RUpdate(M0.R, st), !.exp = exp3, !.n = n1]
Step(M, s0) == StepN(M, Norm(s0))
=============================================================================
