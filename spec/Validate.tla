------------------------------ MODULE Validate ------------------------------
(***************************************************************************)
(* C08, the clause about required AVPs: a request that lacks an AVP its     *)
(* command requires is answered 5005 by the node itself - with a Failed-AVP *)
(* that, wherever the command's answer provides for one, lists exactly the  *)
(* missing AVPs - and the application sees nothing; a request carrying      *)
(* every required AVP passes validation.                                    *)
(*                                                                         *)
(* The command grammar is the library's own table: Defs is the avp_def of   *)
(* the request class as a sequence of [code, vendor, req] (req = the AVP is *)
(* required); Present is what the request carries on the wire, as           *)
(* <<code, vendor>> pairs.  "Missing" is a statement about the wire: an     *)
(* attribute default or an empty list on the receiving side does not make   *)
(* an absent AVP present.  Evaluated by TLC for every typed request class   *)
(* and every subset of required AVPs the sweep removes (harness/checks/     *)
(* c08_sweep.py); the real node is fed the same requests.                   *)
(***************************************************************************)
EXTENDS Naturals, Sequences, Json, IOUtils, TLC

Carries(present, d) == \E i \in 1..Len(present) : present[i][1] = d.code /\ present[i][2] = d.vendor
MissingOf(defs, present) == SelectSeq(defs, LAMBDA d : d.req /\ ~Carries(present, d))

\* the outcome of validation: deliver (to whatever routing decides next) or the node's own 5005
Outcome(defs, present, answerHasFailedAvp) ==
  LET ms == MissingOf(defs, present) IN
  IF ms = <<>> THEN [pass |-> TRUE, rc |-> 0, fa |-> <<>>]
  ELSE [pass |-> FALSE, rc |-> 5005,
        fa |-> IF answerHasFailedAvp THEN [i \in 1..Len(ms) |-> <<ms[i].code, ms[i].vendor>>] ELSE <<>>]

Cases == JsonDeserialize(IOEnv.CASES)
ASSUME JsonSerialize(IOEnv.OUT, [i \in 1..Len(Cases) |-> Outcome(Cases[i].defs, Cases[i].present, Cases[i].ansfa)])

VARIABLE x
EvInit == x = 0
EvNext == UNCHANGED x
=============================================================================
