------------------------------ MODULE MonEval ------------------------------
(* TLC evaluates the property monitors over histories recorded from the real node (one        *)
(* configuration per run): for every trace and every monitor, the set of violated clauses.    *)
EXTENDS Integers, Sequences, SequencesExt, Json, IOUtils, TLC

P == JsonDeserialize(IOEnv.PARAMS)
Traces == JsonDeserialize(IOEnv.TRACES)

C06 == INSTANCE Mon_C06 WITH MCfg <- P
C07 == INSTANCE Mon_C07 WITH MCfg <- P
C11 == INSTANCE Mon_C11 WITH MCfg <- P
C12 == INSTANCE Mon_C12 WITH MCfg <- P
C13 == INSTANCE Mon_C13 WITH MCfg <- P
C08 == INSTANCE Mon_C08 WITH MCfg <- P
C09 == INSTANCE Mon_C09 WITH MCfg <- P
C17 == INSTANCE Mon_C17 WITH MCfg <- P
C10 == INSTANCE Mon_C10 WITH MCfg <- P
C19 == INSTANCE Mon_C19 WITH MCfg <- P
C18 == INSTANCE Mon_C18 WITH MCfg <- P
C14 == INSTANCE Mon_C14 WITH MCfg <- P
C20 == INSTANCE Mon_C20 WITH MCfg <- P

IsObs(tr) == tr # <<>> /\ "obs" \in DOMAIN tr[1]      \* a sequence of idle observations (C19 scaling), not a history
Verdicts(tr) ==
  IF IsObs(tr) THEN [C19 |-> C19!ScaleVerdict(tr)] ELSE
  [C06 |-> FoldLeft(C06!Step, C06!Init, tr).viol,
   C07 |-> FoldLeft(C07!Step, C07!Init, tr).viol,
   C11 |-> FoldLeft(C11!Step, C11!Init, tr).viol,
   C12 |-> FoldLeft(C12!Step, C12!Init, tr).viol,
   C13 |-> FoldLeft(C13!Step, C13!Init, tr).viol,
   C08 |-> FoldLeft(C08!Step, C08!Init, tr).viol,
   C09 |-> FoldLeft(C09!Step, C09!Init, tr).viol,
   C17 |-> FoldLeft(C17!Step, C17!Init, tr).viol,
   C10 |-> FoldLeft(C10!Step, C10!Init, tr).viol,
   C19 |-> FoldLeft(C19!Step, C19!Init, tr).viol,
   C18 |-> FoldLeft(C18!Step, C18!Init, tr).viol,
   C14 |-> FoldLeft(C14!Step, C14!Init, tr).viol,
   C20 |-> FoldLeft(C20!Step, C20!Init, tr).viol]

ASSUME JsonSerialize(IOEnv.OUT, [i \in 1..Len(Traces) |-> Verdicts(Traces[i])])

VARIABLE x
EvInit == x = 0
EvNext == UNCHANGED x
=============================================================================
