#!/venv/bin/python
"""Regenerate MANIFEST.json from the table below (keeps it schema-valid)."""
import json, os
HERE = os.path.dirname(os.path.dirname(os.path.abspath(__file__)))
ALL = ["C%02d" % i for i in range(1, 21)]

CHECKS = {
 "C05": dict(
   category="model_checking",
   text="TLC checks Framing.tla (the reader's framing loop, one action per loop exit) exhaustively for every sequence of <= 3 frames of every kind (good, undecodable, declared length 0, 1..H-1, shorter, longer than the frame), every chunking and every interleaving of network reads with the reader (H = 2): exact ordered exactly-once delivery, undecodable frames skipped, progress measure iter <= 1, termination under fairness; two pinned-behaviour variants must violate them (vacuity guards). The real work_read_queue then runs as a virtual thread on ~10^4 (thorough ~10^5) concrete streams (H = 20; every 1- and 2-cut of short streams, byte-at-a-time, random k-cuts, 8 KiB frames, every bad-length kind at every position); the C05 monitor (Mon_C05.tla) is evaluated by TLC on every execution and executions are validated by TLC as traces of Framing.",
   design_ref="DESIGN.md section 6 C05",
   note="Trusted: chunks enter through PeerConnection.add_in_bytes; misaligned heads are modelled as arbitrary length/decode outcome; the progress measure is header parses per dequeued chunk and buffer length.",
   technique="TLA+ model of the framing loop checked by TLC; real reader thread driven in a deterministic runtime, per-iteration traces validated against the spec by TLC"),
 "C15": dict(
   category="model_checking",
   text="TLC checks WriteBuf.tla (PlusCal; queuers, the writer thread and the I/O loop's send branch at source-line grain, the `+=` of the write buffer split into load / as_bytes() call / store) exhaustively for several plans (1-3 queuers, 2-6 messages incl. an unencodable one), every partial-write pattern and every interleaving: accepted bytes are always a prefix of, and finally equal to, the concatenation of the encodable messages in queueing order; variants without either lock must violate it. A real Node with a READY connection then runs the real writer thread and I/O loop with 1-3 virtual queueing threads under every schedule with <= 2 (thorough 3) preemptions at those source lines, with scripted partial writes and EAGAIN/EINTR/ENOBUFS; the socket's byte log is compared with the queueing order and every distinct execution is validated by TLC as a trace of WriteBuf.",
   design_ref="DESIGN.md section 6 C15",
   note="Trusted: thread switches happen at the studied source lines, the as_bytes() call boundary and blocking primitives (not at arbitrary bytecodes); the full preemption bound is applied to plans of 2-3 messages, larger plans use bound 1-2 with a run cap (reported as evaluations).",
   technique="PlusCal/TLA+ model checked by TLC + bounded exhaustive schedule enumeration of the real node code, traces validated against the spec by TLC"),
 "C16": dict(
   category="model_checking",
   text="TLC checks SeqGen.tla (PlusCal, one label per source line of next_sequence/next_id) exhaustively for 2-3 callers x 1-3 draws x every start value: identifiers distinct, non-zero, consecutive, MAX -> 1; an unlocked variant must violate it (vacuity guard). The real generators are then run under every thread schedule with <= 2 (thorough: 3) preemptions at source-line grain inside a deterministic runtime; the property is evaluated on the values handed out and every distinct execution is validated by TLC as a trace of SeqGen. Full-width arithmetic (10^5 successive draws across the 32/64-bit wrap, the end-to-end initial value for all 4096 start-time residues, session id text) is compared with SeqArith.tla evaluated by TLC.",
   design_ref="DESIGN.md section 6 C16",
   note="Trusted: the deterministic runtime (one virtual thread at a time, switch points at source lines and lock operations, not bytecodes); CPython executes `x += 1` on an int attribute without a thread switch in between; bounds: <= 3 callers, <= 3 draws, <= 3 preemptions.",
   technique="TLA+/PlusCal model checked by TLC + exhaustive bounded schedule enumeration of the real code, traces validated against the spec by TLC"),
}

def main():
    checks = []
    for pid in ALL:
        if pid not in CHECKS:
            continue
        c = CHECKS[pid]
        checks.append({
            "property_id": pid,
            "quick_cmd": "./check %s --tier quick" % pid,
            "thorough_cmd": "./check %s --tier thorough" % pid,
            "evidence_file": "evidence/%s.json" % pid,
            "replay_cmd_template": "./check %s --replay {path}" % pid,
            "engine": "tlc+simrt",
            "level_claimed": {"category": c["category"], "text": c["text"], "design_ref": c["design_ref"]},
            "level_note": c["note"],
            "technique": c["technique"],
        })
    na = [{"property_id": p, "reason": NA.get(p, "check not built yet (work in progress; see DESIGN.md section 10)")}
          for p in ALL if p not in CHECKS]
    m = {
        "version": 1,
        "setup_cmd": "./setup.sh",
        "hooks": {"guard": "DIAMETER_VERIF",
                  "enable": "no in-repo hooks: checks import /repo/src under shimmed stdlib modules (harness/load.py); the guard variable is reserved and unused",
                  "baseline_off_cmd": "cd /repo && /venv/bin/python -m pytest -ra -q -p no:cacheprovider --timeout=900 --continue-on-collection-errors",
                  "source_commits": [], "add_only": True},
        "engines": [{"name": "tlc+simrt", "path": "harness/", "serves_properties": sorted(CHECKS),
                     "kind_free_text": "TLA+ specifications in spec/ checked by TLC; deterministic virtual-thread runtime running /repo/src unmodified; trace validation and behaviour replay between the two"}],
        "checks": checks,
        "not_applicable": na,
        "notes": "See DESIGN.md. KNOWN_FINDINGS.txt lists open findings and fixed defects.",
    }
    json.dump(m, open(os.path.join(HERE, "MANIFEST.json"), "w"), indent=1)
    print("MANIFEST.json: %d checks, %d not_applicable" % (len(checks), len(na)))

NA = {}
if __name__ == "__main__":
    main()
