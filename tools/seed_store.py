#!/usr/bin/env python3
"""tools/seed_store.py <ID> <m> <detected_by> <detection_history...> : store a confirmed seeded change from /tmp/seed_out/<ID>/<m>/
under seeded/<ID>-<m>/ with its meta.json (run tools/seed_eval.sh first: it confirms tests / demo / detection)."""
import json, os, shutil, sys
ID, m, det = sys.argv[1:4]
hist = " ".join(sys.argv[4:])
src = "/tmp/seed_out/%s/%s" % (ID, m)
dst = "/verif/seeded/%s-%s" % (ID, m)
os.makedirs(dst, exist_ok=True)
for f in ("patch.diff", "demo.py", "notes.md"):
    shutil.copy(os.path.join(src, f), os.path.join(dst, f))
first = open(os.path.join(src, "notes.md")).readline().strip()
meta = {"property": ID, "breaks": first, "needs_to_manifest": "see notes.md",
        "source": "independent sub-agent given only the property text, one-line descriptions of earlier changes to avoid, and a scratch worktree (round 5 for m10-m12; earlier rounds as dated in DESIGN.md)",
        "confirmed": {"existing_tests_unchanged": "157 passed, 1 failed (as on the unchanged tree)", "demo_fails_with_patch": True, "demo_passes_without": True,
                      "how": "tools/seed_eval.sh: scratch git worktree of /repo HEAD, git apply patch.diff, pytest, demo with DIAMETER_SRC=<patched src> and =/repo/src, then ./check with DIAMETER_SRC=<patched src>; worktree removed"},
        "detected_by": det, "detection_history": hist}
json.dump(meta, open(os.path.join(dst, "meta.json"), "w"), indent=1)
print("stored", dst)
