#!/bin/sh
# tools/mut.sh <patch.diff> <check id>...   run checks against a scratch copy of /repo/src with the patch applied
set -e
D=$(mktemp -d /tmp/mut.XXXXXX)
cp -r /repo/src "$D/src"
( cd "$D" && patch -s -p1 < "$1" )
shift
rc=0
for c in "$@"; do
  DIAMETER_SRC="$D/src" /verif/check "$c" --tier quick 2>&1 | grep -v conda | grep -E "^(VIOLATION|PASS|FAIL|MACHINERY|KNOWN|DETAIL)" | cut -c1-400 || true
done
rm -rf "$D"
