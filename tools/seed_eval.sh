#!/bin/sh
# tools/seed_eval.sh <ID> <m> [check ids...]  : confirm a seeded change and run our checks against it
ID=$1; M=$2; shift 2
SRC=/tmp/seed_out/$ID/$M
D=$(mktemp -d /tmp/sev.XXXXXX)
git -C /repo worktree add -q --detach "$D/wt" HEAD
( cd "$D/wt" && git apply "$SRC/patch.diff" ) || { echo "PATCH DOES NOT APPLY"; git -C /repo worktree remove --force "$D/wt"; exit 2; }
T=$(cd "$D/wt" && PYTHONPATH="$D/wt/src" /venv/bin/python -m pytest -q -p no:cacheprovider 2>&1 | tail -1)
DEMO=$(ls $SRC/demo.py $SRC/test_demo.py 2>/dev/null | head -1)
( cd /tmp && DIAMETER_SRC="$D/wt/src" timeout 120 /venv/bin/python "$DEMO" >/dev/null 2>&1 ); RP=$?
( cd /tmp && DIAMETER_SRC="/repo/src" timeout 120 /venv/bin/python "$DEMO" >/dev/null 2>&1 ); RU=$?
echo "== $ID/$M tests: $T | demo patched rc=$RP unpatched rc=$RU"
for c in "$@"; do
  DIAMETER_SRC="$D/wt/src" /verif/check "$c" --tier quick 2>&1 | grep -v conda | grep -E "^(VIOLATION|PASS|FAIL|MACHINERY|KNOWN|DETAIL)" | cut -c1-230 | head -5
done
git -C /repo worktree remove --force "$D/wt"; rm -rf "$D"
