import sys, json
from harness import tlc
peers=sys.argv[1]; apps=sys.argv[2]; depth=int(sys.argv[3]); maxtime=int(sys.argv[4]); alpha=sys.argv[5].split(","); pairs=sys.argv[6]=="1"; faults=sys.argv[7]=="1"; maxconn=int(sys.argv[8])
pinned=sys.argv[9].split(",") if len(sys.argv)>9 and sys.argv[9] else []
consts={"NodeCfg":"<- NodeA","PeerCfg":"<- Peers"+peers,"AppCfg":"<- Apps"+apps,"AppOrder":"<- OrderA1","PeerOrder":"<- "+("OrderP12" if peers=="C" else "OrderP1"),"MaxConn":maxconn,
 "Pinned":"@{"+",".join('"%s"'%x for x in pinned)+"}",
 "Depth":depth,"MaxTime":maxtime,"Alpha":"@{"+",".join('"%s"'%x for x in alpha)+"}","Pairs":pairs,"Faults":faults,"Known":"@{}"}
cfg=tlc.cfg_text(consts, spec="Spec", invariants=["Inv06","Inv07","Inv11","Inv12","Inv13","Quiescent"], view="View", constraints=["NoOverflow"])
r=tlc.run("MC_Node", cfg, "t_mcnode", timeout=3000, coverage=False)
print(r["generated"], r["distinct"], r["depth"], r["violated"], r["complete"], r["wall_s"])
if not r["complete"]:
    out=r["out"]
    i=out.find("Error:")
    print(out[i:i+200])
    from harness import tlaval
    acts=tlaval.var_values(out,"lastAct")
    for a in acts:
        if "ms" in a: a["ms"]=[(m["cmd"],"R" if m["req"] else "A",m["hbh"],m["e2e"],m["oh"],m["rc"],m["app"],m["realm"],"T" if m["T"] else "", tuple(m["auth"])) for m in a["ms"]]
        print("  ",a)
    Ms=tlaval.var_values(out,"M")
    if Ms:
        for k,v in Ms[-1].items():
            if v["viol"]: print("  viol",k,v["viol"])
