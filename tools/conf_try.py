import json, time, sys
from harness import nodetrace as nt
variant=int(sys.argv[1]); n=int(sys.argv[2]); pinned=sys.argv[3].split(",") if len(sys.argv)>3 and sys.argv[3] else []
hs=[nt.random_history(seed, length=22, variant=variant, max_conn=6, cfg_id=seed%5) for seed in range(1,n+1)]
groups={}
for h in hs:
    h["params"]["maxConn"]=9
    h["params"]["pinned"]=pinned
    groups.setdefault(json.dumps(h["params"],sort_keys=True),[]).append(h)
bad=0; tot=0
for k,g in groups.items():
    res=nt.conf_batch(json.loads(k), [h["steps"] for h in g], "t_conf")
    for h,r in zip(g,res):
        tot+=1
        if not r["ok"]:
            bad+=1
            if bad<=int(sys.argv[4]) if len(sys.argv)>4 else bad<=1:
                st=h["steps"][r["at"]-1]
                print("seed",h["seed"],"at",r["at"],"outok",r["outok"],"snapok",r["snapok"], "exits", h["exits"])
                for q in h["steps"][max(0,r["at"]-4):r["at"]-1]: print("   prev", q["act"], [ (e["ev"], e.get("c"), e.get("m",{}).get("cmd"), e.get("m",{}).get("req"), e.get("m",{}).get("rc")) for e in q["out"]])
                print(" ACT", st["act"]); print(" REAL out", st["out"]); print(" MODEL out", r["out"]); print(" REAL snap", st["snap"]); print(" MODEL snap", r["snap"])
print("traces",tot,"bad",bad,"groups",len(groups))
