import sys, json
from harness.checks import nodecommon as nc
from harness.checks.c09_plan import two_ready_prefix, _cer
cfg, maxtime = sys.argv[1], int(sys.argv[2])
prefix = two_ready_prefix() if cfg in ("HOLD2", "C", "TS2") else [{"a": "connect"}, {"a": "feed", "c": 1, "ms": [_cer("p1.r1")]}]
r = nc.live_run("live_try", cfg, maxtime, ["dpa"], True, 2, prefix)
print({k: r[k] for k in ("violated", "complete", "distinct", "generated")})
print(r["out"][-1500:] if r["violated"] else "")
