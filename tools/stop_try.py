import json, sys
from harness import nodetrace as nt
from harness.nodetrace import M
from harness.checks.nodecommon import CFGS
cfgname=sys.argv[1]
scen=sys.argv[2]
P1="p1.r1"
cer=lambda h: M("CE", True, 1, 1, oh=h, auth=[4])
S={
 "idle":[{"a":"start"},{"a":"stop","force":False,"wait":5}]+[{"a":"tick"}]*6,
 "ready_dpa":[{"a":"start"},{"a":"connect"},{"a":"feed","c":1,"ms":[cer(P1)]},{"a":"stop","force":False,"wait":5},{"a":"tick"},
              {"a":"feed","c":1,"ms":[M("DP",False,1002,1002,oh=P1,rc=2001)]}]+[{"a":"tick"}]*6,
 "ready_never":[{"a":"start"},{"a":"connect"},{"a":"feed","c":1,"ms":[cer(P1)]},{"a":"stop","force":False,"wait":3}]+[{"a":"tick"}]*9,
 "force":[{"a":"start"},{"a":"connect"},{"a":"feed","c":1,"ms":[cer(P1)]},{"a":"stop","force":True,"wait":3}]+[{"a":"tick"}]*9,
 "newcomer":[{"a":"start"},{"a":"connect"},{"a":"feed","c":1,"ms":[cer(P1)]},{"a":"stop","force":False,"wait":4},{"a":"connect"},{"a":"tick"},{"a":"connect"}]+[{"a":"tick"}]*9,
}
h=nt.replay_acts(CFGS[cfgname], S[scen])
for st in h["steps"]:
    print(st["act"]["a"], st["snap"]["t"], [ (e["ev"], e.get("c"), (e.get("m") or {}).get("cmd"), (e.get("m") or {}).get("req"), e.get("r")) for e in st["out"]], st["snap"]["cst"], st["snap"]["tb"])
print("exits", h["exits"])
res=nt.conf_batch(h["params"], [h["steps"]], "t_stop")
r=res[0]
print(r["ok"], r.get("at"))
if not r["ok"]:
    st=h["steps"][r["at"]-1]
    print("ACT",st["act"]); print("REAL out",st["out"]); print("MODEL out",r["out"]); print("REAL snap",st["snap"]); print("MODEL snap",r["snap"])
