#!/bin/sh
# tools/seed_all.sh [ids...] : apply every stored seeded change to a scratch worktree of /repo HEAD and run the check(s) that
# should detect it (meta.json detected_by); prints one line per change.  Never touches /repo's working tree.
cd /verif
LIST="$@"; [ -z "$LIST" ] && LIST=$(ls seeded)
for n in $LIST; do
  S=/verif/seeded/$n
  D=$(mktemp -d /tmp/sa.XXXXXX)
  git -C /repo worktree add -q --detach "$D/wt" HEAD
  if ! ( cd "$D/wt" && git apply "$S/patch.diff" ) 2>/dev/null; then echo "$n NOAPPLY"; git -C /repo worktree remove --force "$D/wt"; rm -rf "$D"; continue; fi
  T=$(cd "$D/wt" && PYTHONPATH="$D/wt/src" /venv/bin/python -m pytest -q -p no:cacheprovider 2>&1 | tail -1)
  CHECKS=$(python3 -c "import json;print(json.load(open('$S/meta.json'))['detected_by'].replace('+',' '))")
  [ "$CHECKS" = "none" ] && { echo "$n open (not detected)"; git -C /repo worktree remove --force "$D/wt"; rm -rf "$D"; continue; }
  R=""
  for c in $CHECKS; do
    if DIAMETER_SRC="$D/wt/src" timeout 3000 ./check $c --tier quick 2>&1 | grep -q "^VIOLATION"; then R="$R $c:caught"; else R="$R $c:MISSED"; fi
  done
  echo "$n tests[$T]$R"
  git -C /repo worktree remove --force "$D/wt"; rm -rf "$D"
done
