import json, sys
from harness import nodetrace as nt
from harness.checks import nodecommon as nc
body=json.load(open(sys.argv[1]))
rp=body["replay"]; print(body["sig"], "at", rp.get("at"))
if "mc" in rp["cfg"]:
    h=nt.replay_acts(nc.CFGS[rp["cfg"]["mc"]], rp["acts"])
else:
    r=rp["cfg"]["random"]; h=nt.random_history(r["seed"], length=r["length"], variant=r["variant"], max_conn=r["max_conn"], cfg_id=r["cfg_id"], focus=r["focus"])
print({k:v for k,v in h["params"]["peers"].items()}); print(h["params"]["apps"]); print(h["params"]["node"])
for i,q in enumerate(h["steps"]):
    a=dict(q["act"])
    if "ms" in a: a["ms"]=[(m["cmd"],"R" if m["req"] else "A",m["hbh"],m["e2e"],m["oh"],m["rc"],m["app"],m["realm"],tuple(m["auth"])) for m in a["ms"]]
    if "m" in a: a["m"]=(a["m"]["hbh"],a["m"]["e2e"])
    print(i+1,a, [ (e["ev"], e.get("c"), e.get("p"), e.get("r"), (e["m"]["cmd"],"R" if e["m"]["req"] else "A",e["m"]["hbh"],e["m"]["e2e"],e["m"]["rc"]) if "m" in e else None) for e in q["out"]])
    print("      t",q["snap"]["t"],{k:(v["conn"],v["st"],v["reason"],v["ldisc"]) for k,v in q["snap"]["peers"].items()},q["snap"]["cst"],"closed",q["snap"]["closed"],q["snap"]["apps"])
