#!/bin/sh
# tools/seed_tests.sh <patch.diff>... : run the repository's test-suite against each patch (imports from the patched tree)
for P in "$@"; do
  D=$(mktemp -d /tmp/sev.XXXXXX)
  git -C /repo worktree add -q --detach "$D/wt" HEAD
  if ( cd "$D/wt" && git apply "$P" 2>/dev/null ); then
    T=$(cd "$D/wt" && PYTHONPATH="$D/wt/src" /venv/bin/python -m pytest -q -p no:cacheprovider 2>&1 | tail -1)
    W=$(cd "$D/wt" && PYTHONPATH="$D/wt/src" /venv/bin/python -c "import diameter; print(diameter.__file__)")
  else T="PATCH DOES NOT APPLY"; W=""; fi
  echo "$P | $T | $W" | sed "s|$D/wt|<wt>|g"
  git -C /repo worktree remove --force "$D/wt"; rm -rf "$D"
done
