import json, sys
from harness import nodetrace as nt
from harness.nodetrace import M
from harness.world import peer_cfg, app_cfg
handler=sys.argv[1]; maxt=int(sys.argv[2]); scen=sys.argv[3]; pinned=sys.argv[4].split(",") if len(sys.argv)>4 and sys.argv[4] else []
P1="p1.r1"
cfg={"node":{"idle":30,"dwa":4,"cer":4,"cea":4,"wakeup":1,"retx":4},"peers":[peer_cfg("p1")],
     "apps":[app_cfg("a1",4,peers=["p1"],kind="threading",max_threads=maxt,handler=handler)]}
cer=lambda: M("CE", True, 1, 1, oh=P1, auth=[4])
req=lambda i: M("APP", True, 10+i, 20+i, app=4, oh=P1, realm="r1")
S={
 "serve":[{"a":"start"},{"a":"connect"},{"a":"feed","c":1,"ms":[cer()]}]+[{"a":"feed","c":1,"ms":[req(i)]} for i in range(4)]+[{"a":"tick"}]*7,
 "burst":[{"a":"start"},{"a":"connect"},{"a":"feed","c":1,"ms":[cer()]},{"a":"feed","c":1,"ms":[req(0),req(1)]},{"a":"feed","c":1,"ms":[req(2),req(3)]}]+[{"a":"tick"}]*9,
 "stop":[{"a":"start"},{"a":"connect"},{"a":"feed","c":1,"ms":[cer()]},{"a":"feed","c":1,"ms":[req(0)]},{"a":"tick"},{"a":"stop","force":False,"wait":4}]+[{"a":"tick"}]*14,
 "stop2":[{"a":"start"},{"a":"tick"},{"a":"tick"},{"a":"stop","force":True,"wait":4}]+[{"a":"tick"}]*12,
 "lost":[{"a":"start"},{"a":"connect"},{"a":"feed","c":1,"ms":[cer()]},{"a":"feed","c":1,"ms":[req(0)]},{"a":"peer_close","c":1}]+[{"a":"tick"}]*4+
        [{"a":"connect"},{"a":"feed","c":2,"ms":[cer()]}]+[{"a":"feed","c":2,"ms":[req(5+i)]} for i in range(3)]+[{"a":"tick"}]*7,
}
h=nt.replay_acts(cfg, S[scen], pinned=pinned)
for st in h["steps"]:
    print(st["act"]["a"], st["snap"]["t"], [ (e["ev"], e.get("c"), (e.get("m") or {}).get("cmd"), (e.get("m") or {}).get("rc"), e.get("r"), e.get("th")) for e in st["out"]])
print("exits", [(a,b) for a,b in h["exits"]])
res=nt.conf_batch(h["params"], [h["steps"]], "t_tapp")
r=res[0]
print(r["ok"], r.get("at"))
if not r["ok"]:
    st=h["steps"][r["at"]-1]
    print("ACT",st["act"]); print("REAL out",st["out"]); print("MODEL out",r["out"]); print("REAL snap",st["snap"]); print("MODEL snap",r["snap"])
