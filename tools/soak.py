"""tools/soak.py <seed_from> <seed_to> [ids…] : only the random-history phase of the node checks, for several seeds.
Prints every monitor violation that is not a listed known finding (hunting for false alarms / rare defects)."""
import importlib
import sys

from harness.checks import nodecommon as nc
from harness.common import Check

PROFILES = {"C06": ("c06", "PROFILE"), "C07": ("c07_plan", "PROFILE"), "C08": ("c08_plan", "PROFILE"), "C09": ("c09_plan", "PROFILE"),
            "C10": ("c10_plan", "PROFILE"), "C11": ("c11_plan", "PROFILE"), "C12": ("c12_plan", "PROFILE"), "C13": ("c13_plan", "PROFILE"),
            "C17": ("c17_plan", "PROFILE"), "C18": ("c18_plan", "PROFILE"), "C19": ("c19", "PROFILE")}


def main():
    a, b = int(sys.argv[1]), int(sys.argv[2])
    ids = sys.argv[3:] or sorted(PROFILES)
    for pid in ids:
        mod = importlib.import_module("harness.checks." + PROFILES[pid][0])
        prof = getattr(mod, PROFILES[pid][1])
        for seed in range(a, b + 1):
            ck = Check(pid, "quick", seed, "model_checking", evidence=False)
            hs = nc.random_histories(240, seed, prof)
            nv, ncf = nc.judge(ck, pid, hs, "soak_%s" % pid.lower(), conf=True)
            print("%s seed=%d histories=%d conforming=%d violations=%s known=%s drift=%d" % (
                pid, seed, len(hs), ncf, [v["sig"] for v in ck.violations], sorted(ck.known), len(ck.drift)))
            for v in ck.violations:
                print("   ", v["sig"], v["path"])
            for d in ck.drift[:2]:
                print("    DRIFT", d[:300])
            sys.stdout.flush()


if __name__ == "__main__":
    main()
