import json, sys, collections
from harness import nodetrace as nt
variant=int(sys.argv[1]); n=int(sys.argv[2]); show=int(sys.argv[3]) if len(sys.argv)>3 else 1
hs=[nt.random_history(seed, length=22, variant=variant, max_conn=6, cfg_id=seed%5) for seed in range(1,n+1)]
groups={}
for h in hs:
    groups.setdefault(json.dumps(h["params"],sort_keys=True),[]).append(h)
C=collections.Counter(); shown=collections.Counter()
for k,g in groups.items():
    res=nt.mon_batch(json.loads(k), [h["steps"] for h in g], "t_mon")
    for h,r in zip(g,res):
        for mon,vs in r.items():
            for v in vs:
                key=(mon,v["sig"]); C[key]+=1
                if shown[key]<show:
                    shown[key]+=1
                    at=v["at"]; print("==",mon,v["sig"],"seed",h["seed"],"at",at)
                    for q in h["steps"][max(0,at-3):at]:
                        a=dict(q["act"]); 
                        if "ms" in a: a["ms"]=[(m["cmd"],"R" if m["req"] else "A",m["hbh"],m["e2e"],m["oh"],m["rc"],m["app"],m["realm"]) for m in a["ms"]]
                        print("   ",a, [ (e["ev"], e.get("c"), e.get("p"), e.get("r"), (e["m"]["cmd"],"R" if e["m"]["req"] else "A",e["m"]["hbh"],e["m"]["e2e"],e["m"]["rc"]) if "m" in e else None) for e in q["out"]])
                        print("      snap t",q["snap"]["t"],q["snap"]["peers"],q["snap"]["conns"],q["snap"]["cst"],q["snap"]["closed"],q["snap"]["apps"])
for k,v in sorted(C.items()): print(k,v)
