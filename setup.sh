#!/bin/sh
# Offline setup: nothing is installed; parse every specification once so a broken spec fails early.
cd "$(dirname "$0")/spec" || exit 1
rc=0
for f in *.tla; do
  java -cp /opt/veriftools/tla/tla2tools.jar:/opt/veriftools/tla/CommunityModules-deps.jar tla2sany.SANY "$f" >/tmp/sany.$$ 2>&1 || { cat /tmp/sany.$$; rc=1; }
  grep -q "Semantic errors\|Parse Error\|Fatal errors" /tmp/sany.$$ && { cat /tmp/sany.$$; rc=1; }
done
rm -f /tmp/sany.$$
mkdir -p ../out ../evidence
exit $rc
